package main

// C19 — the WebSocket subscription server on arbitrary client frame sequences.
//
// The real websocket.HandleWithOptions (protocol handler + read loop + the real ExecutorEngine with its id
// registry) is driven through an in-memory TransportClient and a scripted ExecutorPool whose executors block in
// Execute until the scenario says what they do (flush a result, return a result, fail).  The observed sequence of
// actions must be a run of the Lean transition system GqlVerif.Proto.WsServer and the frames / close codes the
// server wrote must be exactly the model's outputs; a small reference acceptor for the two protocols is evaluated on
// the implementation's output as well.

import (
	"context"
	"encoding/binary"
	"encoding/json"
	"errors"
	"fmt"
	"math/rand"
	"net"
	"os"
	"path/filepath"
	"strings"
	"sync"
	"time"

	"github.com/gobwas/ws"

	"github.com/wundergraph/graphql-go-tools/execution/subscription"
	"github.com/wundergraph/graphql-go-tools/execution/subscription/websocket"
	"github.com/wundergraph/graphql-go-tools/v2/pkg/ast"
	"github.com/wundergraph/graphql-go-tools/v2/pkg/engine/resolve"
)

func init() { props["C19"] = runC19 }

type c19Op struct {
	Kind  string `json:"kind"` // send | exec | timeout | ticks
	Frame string `json:"frame,omitempty"`
	Inst  int    `json:"inst,omitempty"`
	Flush []int  `json:"flush,omitempty"`
	Ok    bool   `json:"ok,omitempty"`
	Tag   *int   `json:"tag,omitempty"`
}

type c19Scenario struct {
	Proto       string  `json:"proto"` // transport | legacy
	InitTimeout bool    `json:"initTimeout,omitempty"`
	KeepAlive   bool    `json:"keepAlive,omitempty"`
	NilCtxInit  bool    `json:"nilCtxInit,omitempty"` // the InitFunc returns (nil, err) on rejection instead of (ctx, err)
	Ops         []c19Op `json:"ops"`
}

// ---- in-memory transport client --------------------------------------------------------------------------

type c19Client struct {
	mu       sync.Mutex
	closed   bool
	closeCh  chan struct{}
	in       chan []byte
	out      []string
	waiting  chan struct{} // one token per ReadBytesFromClient call
	badClose []string
}

func newC19Client() *c19Client {
	return &c19Client{closeCh: make(chan struct{}), in: make(chan []byte), waiting: make(chan struct{}, 64)}
}

func (c *c19Client) ReadBytesFromClient() ([]byte, error) {
	if !c.IsConnected() {
		return nil, subscription.ErrTransportClientClosedConnection
	}
	select {
	case c.waiting <- struct{}{}:
	default:
	}
	select {
	case b := <-c.in:
		return b, nil
	case <-c.closeCh:
		return nil, subscription.ErrTransportClientClosedConnection
	}
}

func (c *c19Client) WriteBytesToClient(b []byte) error {
	c.mu.Lock()
	defer c.mu.Unlock()
	if c.closed {
		return subscription.ErrTransportClientClosedConnection
	}
	c.out = append(c.out, c19Canon(b))
	return nil
}

func (c *c19Client) IsConnected() bool {
	c.mu.Lock()
	defer c.mu.Unlock()
	return !c.closed
}

func (c *c19Client) shut(record string) {
	c.mu.Lock()
	defer c.mu.Unlock()
	if c.closed {
		return
	}
	c.closed = true
	if record != "" {
		c.out = append(c.out, record)
	}
	close(c.closeCh)
}

func (c *c19Client) Disconnect() error { c.shut("close:1000"); return nil }

func (c *c19Client) DisconnectWithReason(reason any) error {
	code := -1
	switch r := reason.(type) {
	case websocket.CloseReason:
		if p := ws.Frame(r).Payload; len(p) >= 2 {
			code = int(binary.BigEndian.Uint16(p))
		}
	case websocket.CompiledCloseReason:
		// a compiled server frame: 2 header bytes (no mask, short length), then the payload
		if len(r) >= 4 {
			code = int(binary.BigEndian.Uint16(r[2:4]))
		}
	default:
		c.mu.Lock()
		c.badClose = append(c.badClose, fmt.Sprintf("%T", reason))
		c.mu.Unlock()
	}
	c.shut(fmt.Sprintf("close:%d", code))
	return nil
}

func (c *c19Client) snapshot() []string {
	c.mu.Lock()
	defer c.mu.Unlock()
	return append([]string{}, c.out...)
}

// c19Canon names a server frame: type[:id[:tag]].
func c19Canon(b []byte) string {
	var m struct {
		ID      string          `json:"id"`
		Type    string          `json:"type"`
		Payload json.RawMessage `json:"payload"`
	}
	if err := json.Unmarshal(b, &m); err != nil {
		return "unparseable:" + string(b)
	}
	switch m.Type {
	case "next", "data":
		var p struct {
			Data struct {
				N *int `json:"n"`
			} `json:"data"`
		}
		if json.Unmarshal(m.Payload, &p) == nil && p.Data.N != nil {
			return fmt.Sprintf("next:%s:%d", m.ID, *p.Data.N)
		}
		return fmt.Sprintf("next:%s:?%s", m.ID, string(m.Payload))
	case "error":
		return "error:" + m.ID
	case "complete":
		return "complete:" + m.ID
	case "pong":
		if string(m.Payload) == websocket.GraphQLTransportWSHeartbeatPayload {
			return "heartbeat"
		}
		return "pong:" + string(m.Payload)
	case "connection_ack", "ka", "connection_error":
		return m.Type
	}
	return "other:" + string(b)
}

// ---- scripted executors ----------------------------------------------------------------------------------

type c19Cmd struct {
	flush *int
	end   bool
	ok    bool
	tag   *int
	ack   chan struct{}
}

type c19Exec struct {
	w       *c19World
	inst    int
	sub     bool
	cmds    chan c19Cmd
	running bool // owned by the harness goroutine
	exited  bool
}

func (e *c19Exec) OperationType() ast.OperationType {
	if e.sub {
		return ast.OperationTypeSubscription
	}
	return ast.OperationTypeQuery
}
func (e *c19Exec) SetContext(context.Context) {}
func (e *c19Exec) Reset()                     {}

func (e *c19Exec) Execute(writer resolve.SubscriptionResponseWriter) error {
	e.w.sig <- c19Sig{kind: "begin", inst: e.inst}
	for cmd := range e.cmds {
		if cmd.flush != nil {
			_, _ = writer.Write([]byte(fmt.Sprintf(`{"data":{"n":%d}}`, *cmd.flush)))
			_ = writer.Flush()
			close(cmd.ack)
			continue
		}
		if cmd.end {
			if !cmd.ok {
				close(cmd.ack)
				return errors.New("execution failed")
			}
			if cmd.tag != nil {
				_, _ = writer.Write([]byte(fmt.Sprintf(`{"data":{"n":%d}}`, *cmd.tag)))
			}
			close(cmd.ack)
			return nil
		}
	}
	return nil
}

type c19Pool struct{ w *c19World }

func (p *c19Pool) Get(payload []byte) (subscription.Executor, error) {
	var req struct {
		Query string `json:"query"`
	}
	if err := json.Unmarshal(payload, &req); err != nil {
		return nil, err
	}
	var sub bool
	switch {
	case strings.HasPrefix(req.Query, "subscription"):
		sub = true
	case strings.HasPrefix(req.Query, "query"), strings.HasPrefix(req.Query, "mutation"):
	default:
		return nil, errors.New("invalid operation")
	}
	p.w.mu.Lock()
	e := &c19Exec{w: p.w, inst: len(p.w.execs), sub: sub, cmds: make(chan c19Cmd)}
	p.w.execs = append(p.w.execs, e)
	p.w.mu.Unlock()
	return e, nil
}

func (p *c19Pool) Put(ex subscription.Executor) error {
	if e, ok := ex.(*c19Exec); ok {
		p.w.sig <- c19Sig{kind: "put", inst: e.inst}
	}
	return nil
}

type c19Sent struct {
	frame string
	pos   int // number of server frames written before this client frame was sent
}

type c19Sig struct {
	kind string
	inst int
}

type c19World struct {
	mu         sync.Mutex
	execs      []*c19Exec
	sig        chan c19Sig
	client     *c19Client
	trace      [][]any
	probs      []string
	done       chan struct{}
	tickedOpen bool
	sendPos    []c19Sent
	begun      map[int]int // inst -> begin signals received and not yet consumed
	put        map[int]bool
}

func (w *c19World) emit(a ...any) { w.trace = append(w.trace, a) }

// pump drains pending signals into the bookkeeping maps
func (w *c19World) pump(d time.Duration) {
	deadline := time.After(d)
	for {
		select {
		case s := <-w.sig:
			if s.kind == "begin" {
				w.begun[s.inst]++
			} else {
				w.put[s.inst] = true
			}
		case <-deadline:
			return
		}
	}
}

func (w *c19World) waitBegin(inst int, d time.Duration) bool {
	deadline := time.After(d)
	for w.begun[inst] == 0 {
		select {
		case s := <-w.sig:
			if s.kind == "begin" {
				w.begun[s.inst]++
			} else {
				w.put[s.inst] = true
			}
		case <-deadline:
			return false
		}
	}
	return true
}

func (w *c19World) waitReader(d time.Duration) bool {
	deadline := time.After(d)
	for {
		select {
		case <-w.client.waiting:
			return true
		case <-w.client.closeCh:
			return true
		case <-w.done:
			return true
		case s := <-w.sig:
			if s.kind == "begin" {
				w.begun[s.inst]++
			} else {
				w.put[s.inst] = true
			}
		case <-deadline:
			return false
		}
	}
}

const c19Interval = 3 * time.Millisecond

func c19RunScenario(sc *c19Scenario) (trace [][]any, out []string, probs []string, sent []c19Sent) {
	w := &c19World{sig: make(chan c19Sig, 256), client: newC19Client(), done: make(chan struct{}), begun: map[int]int{}, put: map[int]bool{}}
	pool := &c19Pool{w: w}
	opts := websocket.HandleOptions{
		CustomClient:                     w.client,
		CustomSubscriptionUpdateInterval: c19Interval,
		CustomKeepAliveInterval:          time.Hour,
		CustomConnectionInitTimeOut:      time.Hour,
		CustomReadErrorTimeOut:           time.Hour,
		Protocol:                         websocket.ProtocolGraphQLTransportWS,
		WebSocketInitFunc: func(ctx context.Context, payload websocket.InitPayload) (context.Context, error) {
			var m map[string]json.RawMessage
			if json.Unmarshal(payload, &m) == nil {
				if _, ok := m["reject"]; ok {
					if sc.NilCtxInit {
						return nil, errors.New("rejected")
					}
					return ctx, errors.New("rejected")
				}
			}
			return ctx, nil
		},
	}
	if sc.Proto == "legacy" {
		opts.Protocol = websocket.ProtocolGraphQLWS
	}
	if sc.InitTimeout {
		opts.CustomConnectionInitTimeOut = 40 * time.Millisecond
	}
	if sc.KeepAlive {
		opts.CustomKeepAliveInterval = 8 * time.Millisecond
	}
	connA, connB := net.Pipe()
	defer connB.Close()
	ready := make(chan bool)
	errCh := make(chan error, 1)
	go func() {
		defer close(w.done)
		websocket.HandleWithOptions(ready, errCh, connA, pool, opts)
	}()
	select {
	case <-ready:
	case err := <-errCh:
		return nil, nil, []string{"handler did not start: " + err.Error()}, nil
	case <-time.After(2 * time.Second):
		return nil, nil, []string{"handler did not start"}, nil
	}
	problem := func(f string, a ...any) { w.probs = append(w.probs, fmt.Sprintf(f, a...)) }
	if !w.waitReader(2 * time.Second) {
		problem("the read loop never asked for a frame")
	}
	closedSeen := func() bool {
		select {
		case <-w.client.closeCh:
			return true
		default:
			return false
		}
	}
	exitNoted := false
	noteExit := func() {
		if exitNoted || !closedSeen() {
			return
		}
		select {
		case <-w.done:
			exitNoted = true
			w.emit("exit")
		case <-time.After(2 * time.Second):
			problem("the handler did not return after the connection was closed")
		}
	}
	for _, op := range sc.Ops {
		if len(w.probs) > 0 {
			break
		}
		noteExit()
		switch op.Kind {
		case "send":
			if closedSeen() {
				continue
			}
			select {
			case w.client.in <- []byte(op.Frame):
			case <-w.client.closeCh:
				continue
			case <-time.After(2 * time.Second):
				problem("the server stopped reading frames (wedged) before %q", op.Frame)
				continue
			}
			w.sendPos = append(w.sendPos, c19Sent{frame: op.Frame, pos: len(w.client.snapshot())})
			w.emit("recv", op.Frame)
			if !w.waitReader(2 * time.Second) {
				problem("the server did not come back to reading after %q (wedged)", op.Frame)
			}
		case "exec":
			w.mu.Lock()
			var e *c19Exec
			if op.Inst < len(w.execs) {
				e = w.execs[op.Inst]
			}
			w.mu.Unlock()
			if e == nil || e.exited {
				continue
			}
			if !e.running {
				if !w.waitBegin(e.inst, 25*c19Interval) {
					continue // not (re)started: cancelled or never registered
				}
				w.begun[e.inst]--
				e.running = true
				w.emit("execBegin", e.inst)
			}
			for _, t := range op.Flush {
				t := t
				ack := make(chan struct{})
				e.cmds <- c19Cmd{flush: &t, ack: ack}
				<-ack
				w.emit("execFlush", e.inst, t)
			}
			ack := make(chan struct{})
			tag := op.Tag
			if !e.sub && op.Ok && tag == nil {
				z := 0
				tag = &z
			}
			e.cmds <- c19Cmd{end: true, ok: op.Ok, tag: tag, ack: ack}
			<-ack
			e.running = false
			if tag != nil {
				w.emit("execEnd", e.inst, op.Ok, *tag)
			} else {
				w.emit("execEnd", e.inst, op.Ok, nil)
			}
			// the goroutine now emits and either loops (subscription) or exits (query): wait for the next sign of life
			if e.sub {
				deadline := time.After(60 * c19Interval)
			waitSub:
				for w.begun[e.inst] == 0 && !w.put[e.inst] {
					select {
					case s := <-w.sig:
						if s.kind == "begin" {
							w.begun[s.inst]++
						} else {
							w.put[s.inst] = true
						}
					case <-deadline:
						problem("subscription instance %d neither re-executed nor exited", e.inst)
						break waitSub
					}
				}
				if w.put[e.inst] {
					e.exited = true
					w.emit("instExit", e.inst)
				}
			} else {
				deadline := time.After(2 * time.Second)
			waitQ:
				for !w.put[e.inst] {
					select {
					case s := <-w.sig:
						if s.kind == "begin" {
							w.begun[s.inst]++
						} else {
							w.put[s.inst] = true
						}
					case <-deadline:
						problem("query instance %d did not finish", e.inst)
						break waitQ
					}
				}
				e.exited = true
			}
		case "timeout":
			if !sc.InitTimeout || closedSeen() {
				continue
			}
			select {
			case <-w.client.closeCh:
				w.emit("initTimeout")
			case <-time.After(400 * time.Millisecond):
				// the model decides whether a timeout had to happen
			}
		case "ticks":
			if !sc.KeepAlive || closedSeen() {
				continue
			}
			before := 0
			for _, o := range w.client.snapshot() {
				if o == "ka" || o == "heartbeat" {
					before++
				}
			}
			// several intervals; under load a timer goroutine can be late, so wait (much) longer for the first frame
			after := 0
			for waited := 0; waited < 60 && after <= before; waited++ {
				time.Sleep(10 * time.Millisecond)
				after = 0
				for _, o := range w.client.snapshot() {
					if o == "ka" || o == "heartbeat" {
						after++
					}
				}
			}
			if !closedSeen() {
				w.emit("ticks", after > before)
			}
		}
	}
	// the client goes away (if the server has not closed already); everything is torn down
	if !closedSeen() {
		w.client.shut("")
		w.emit("clientGone")
	}
	noteExit()
	// release executors that are still inside Execute, let the goroutines end
	w.pump(5 * c19Interval)
	w.mu.Lock()
	execs := append([]*c19Exec{}, w.execs...)
	w.mu.Unlock()
	for _, e := range execs {
		if w.begun[e.inst] > 0 && !e.running {
			w.begun[e.inst]--
			e.running = true
		}
		if e.running {
			ack := make(chan struct{})
			select {
			case e.cmds <- c19Cmd{end: true, ok: true, ack: ack}:
				<-ack
			case <-time.After(time.Second):
			}
			e.running = false
		}
	}
	w.pump(10 * c19Interval)
	for _, e := range execs {
		// a late re-execution after teardown would block forever: release it too
		if w.begun[e.inst] > 0 {
			ack := make(chan struct{})
			select {
			case e.cmds <- c19Cmd{end: true, ok: true, ack: ack}:
				<-ack
			case <-time.After(100 * time.Millisecond):
			}
		}
	}
	if len(w.client.badClose) > 0 {
		problem("DisconnectWithReason was called with %v", w.client.badClose)
	}
	return w.trace, w.client.snapshot(), w.probs, w.sendPos
}

// ---- reference acceptor on the implementation's output ----------------------------------------------------

// c19ProtocolOK interleaves nothing: it walks the scenario's frames and the server output in the order the harness
// observed them (the output list is cumulative, so the check is on the output alone plus the set of ids the client
// ever subscribed) and returns the rule broken, if any.
func c19ProtocolOK(sc *c19Scenario, out []string) (rule, detail string) {
	acked := false
	closed := false
	allowedClose := map[string]bool{"close:4400": true, "close:4401": true, "close:4408": true, "close:4409": true, "close:4429": true, "close:1011": true}
	for _, o := range out {
		if closed {
			return "nothing_after_close", o
		}
		switch {
		case strings.HasPrefix(o, "close:"):
			closed = true
			if sc.Proto == "transport" && !allowedClose[o] {
				return "close_code", o
			}
		case o == "connection_ack":
			acked = true
		case strings.HasPrefix(o, "next:") || (strings.HasPrefix(o, "error:") && o != "error:"):
			// (a `complete` echo for an id the client completed itself is tolerated: Complete is bidirectional)
			if sc.Proto == "transport" && !acked {
				return "no_operation_before_ack", o
			}
		case o == "ka" || o == "heartbeat":
			if !acked {
				return "keepalive_before_ack", o
			}
		case strings.HasPrefix(o, "other:") || strings.HasPrefix(o, "unparseable:"):
			return "unknown_server_frame", o
		}
	}
	return "", ""
}

// ---- judge ----------------------------------------------------------------------------------------------------

// c19Terminal checks the terminal-message discipline on the implementation's output: after the server's `complete` or
// `error` for an id nothing more is sent for it until the client starts a new operation with that id.  Returns the
// offending message, the terminal it followed and whether the client had completed the id itself before.
func c19Terminal(sc *c19Scenario, out []string, sent []c19Sent) (offender, terminal string, clientCompleted bool, found bool) {
	type st struct {
		terminal        string
		clientCompleted bool
	}
	ids := map[string]*st{}
	get := func(id string) *st {
		if ids[id] == nil {
			ids[id] = &st{}
		}
		return ids[id]
	}
	k := 0
	for i := 0; i <= len(out); i++ {
		for k < len(sent) && sent[k].pos <= i {
			var m struct {
				ID   string `json:"id"`
				Type string `json:"type"`
			}
			if json.Unmarshal([]byte(sent[k].frame), &m) == nil {
				switch m.Type {
				case "subscribe", "start":
					// a new operation may use the id again; that the id was cancelled before stays on record
					get(m.ID).terminal = ""
				case "complete", "stop":
					get(m.ID).clientCompleted = true
				case "connection_terminate", "connection_init":
					// graphql-ws cancels every operation on connection_terminate and on a refused connection_init
					if sc.Proto == "legacy" && (m.Type == "connection_terminate" || strings.Contains(sent[k].frame, `"reject"`)) {
						for _, x := range ids {
							x.clientCompleted = true
						}
					}
				}
			}
			k++
		}
		if i == len(out) {
			break
		}
		o := out[i]
		parts := strings.SplitN(o, ":", 3)
		if len(parts) < 2 || (parts[0] != "next" && parts[0] != "error" && parts[0] != "complete") {
			continue
		}
		if parts[1] == "" {
			continue // legacy replies to undecodable frames with an error that carries no id
		}
		x := get(parts[1])
		if x.terminal != "" {
			return o, x.terminal, x.clientCompleted, true
		}
		if parts[0] != "next" {
			x.terminal = o
		}
	}
	return "", "", false, false
}

// c19FrameRules checks, per client frame, what graphql-transport-ws prescribes for it independently of the model:
// a frame that is not JSON closes with 4400; 4409 is only for an id that has an operation in progress.
func c19FrameRules(sc *c19Scenario, out []string, sent []c19Sent) (rule, detail string) {
	if sc.Proto != "transport" {
		return "", ""
	}
	active := map[string]string{} // id -> "sub" | "query"
	inited := false
	seen := 0
	for k, f := range sent {
		end := len(out)
		if k+1 < len(sent) {
			end = sent[k+1].pos
		}
		// server output before this frame: the terminal message of a query/mutation releases its id (a subscription
		// keeps its id until the client completes it)
		for ; seen < f.pos; seen++ {
			o := out[seen]
			p := strings.SplitN(o, ":", 3)
			if len(p) >= 2 && (p[0] == "complete" || p[0] == "error") && active[p[1]] == "query" {
				delete(active, p[1])
			}
			if o == "connection_ack" {
				inited = true
			}
		}
		reply := out[f.pos:end]
		closedBefore := false
		for _, o := range out[:f.pos] {
			closedBefore = closedBefore || strings.HasPrefix(o, "close:")
		}
		if closedBefore {
			break
		}
		if len(f.frame) > 0 && !json.Valid([]byte(f.frame)) {
			ok := false
			for _, o := range reply {
				ok = ok || o == "close:4400"
			}
			// the close may also come later than the next frame boundary only if no frame followed
			if !ok {
				return "malformed_closes_4400", fmt.Sprintf("frame %q is not JSON; the server answered %v", f.frame, reply)
			}
			continue
		}
		var m struct {
			ID      string `json:"id"`
			Type    string `json:"type"`
			Payload struct {
				Query string `json:"query"`
			} `json:"payload"`
		}
		if json.Unmarshal([]byte(f.frame), &m) != nil {
			continue
		}
		switch m.Type {
		case "connection_init":
			// the server handles frames in order: once it has read an (accepted) connection_init every later frame meets
			// an initialised connection, whenever the acknowledgement shows up in the output
			if !strings.Contains(f.frame, `"reject":true`) {
				inited = true
			}
		case "subscribe":
			for _, o := range reply {
				if o == "close:4409" && active[m.ID] == "" {
					return "spurious_duplicate", fmt.Sprintf("subscribe with id %q was refused as a duplicate although no operation with that id is in progress", m.ID)
				}
			}
			if inited && active[m.ID] == "" {
				if strings.HasPrefix(m.Payload.Query, "subscription") {
					active[m.ID] = "sub"
				} else if strings.HasPrefix(m.Payload.Query, "query") || strings.HasPrefix(m.Payload.Query, "mutation") {
					active[m.ID] = "query"
				}
			}
		case "complete":
			delete(active, m.ID)
		}
	}
	return "", ""
}

func c19Judge(run *Run, sc *c19Scenario, trace [][]any, out []string, probs []string, sent []c19Sent) {
	in := map[string]any{"scenario": sc}
	for _, p := range probs {
		run.Violate(Violation{Kind: "oracle", Clause: "never_wedged", Input: in, Impl: out, Detail: p}, "")
	}
	if len(probs) > 0 {
		return
	}
	if rule, d := c19ProtocolOK(sc, out); rule != "" {
		run.Violate(Violation{Kind: "oracle", Clause: rule, Input: in, Impl: out, Detail: d}, "")
	}
	if rule, d := c19FrameRules(sc, out, sent); rule != "" {
		run.Violate(Violation{Kind: "oracle", Clause: rule, Input: in, Impl: out, Detail: d}, "")
	}
	if off, term, clientCompleted, found := c19Terminal(sc, out, sent); found {
		known := ""
		switch {
		case strings.HasPrefix(term, "complete:") && clientCompleted:
			// the server echoed the client's own complete/stop while the operation's goroutine was still emitting
			known = "C19-message-after-client-complete"
		case strings.HasPrefix(term, "error:") && term != "error:":
			// a failing operation is executed again on the next update interval
			known = "C19-failing-subscription-reexecuted"
		}
		run.Violate(Violation{Kind: "oracle", Clause: "terminal_discipline", Input: in, Impl: out,
			Detail: fmt.Sprintf("%s was sent after the terminal message %s for the same id", off, term)}, known)
	}
	raw, err := run.Pool.Ask("c19.run", map[string]any{"proto": sc.Proto, "trace": trace})
	if err != nil {
		run.Violate(Violation{Kind: "correspondence", Clause: "driver", Input: in, Detail: err.Error()}, "")
		return
	}
	var m struct {
		Accepted   bool     `json:"accepted"`
		RejectedAt *int     `json:"rejectedAt"`
		Out        []string `json:"out"`
		Heartbeats int      `json:"heartbeats"`
	}
	_ = json.Unmarshal(raw, &m)
	if !m.Accepted {
		at := -1
		if m.RejectedAt != nil {
			at = *m.RejectedAt
		}
		d := fmt.Sprintf("the observed action sequence is not a run of the model: rejected at %d", at)
		if at >= 0 && at < len(trace) {
			d += " " + jsonStr(trace[at])
		}
		run.Violate(Violation{Kind: "correspondence", Clause: "trace_accepted", Input: in, Impl: out, Model: json.RawMessage(raw), Detail: d + " | trace=" + truncate(jsonStr(trace), 1200)}, "")
		return
	}
	strip := func(xs []string) (rest []string, ka int) {
		for _, x := range xs {
			if x == "ka" || x == "heartbeat" {
				ka++
			} else {
				rest = append(rest, x)
			}
		}
		return
	}
	o1, ka := strip(out)
	o2, _ := strip(m.Out)
	if strings.Join(o1, ",") != strings.Join(o2, ",") {
		run.Violate(Violation{Kind: "correspondence", Clause: "server_output", Input: in, Impl: out, Model: json.RawMessage(raw),
			Detail: fmt.Sprintf("server wrote %v, model %v | trace=%s", o1, o2, truncate(jsonStr(trace), 1200))}, "")
	}
	if sc.KeepAlive {
		// keep-alive / heartbeat frames are timer driven: they must appear iff the model has a keep-alive running
		if ka > 0 && m.Heartbeats == 0 {
			run.Violate(Violation{Kind: "correspondence", Clause: "keep_alive", Input: in, Impl: out, Model: json.RawMessage(raw),
				Detail: fmt.Sprintf("%d keep-alive frames were written; the model has %d keep-alive loops running", ka, m.Heartbeats)}, "")
		}
	} else if ka > 0 {
		run.Violate(Violation{Kind: "correspondence", Clause: "keep_alive", Input: in, Impl: out, Detail: "keep-alive frames with an hour-long interval"}, "")
	}
}

// ---- generator ----------------------------------------------------------------------------------------------

func c19Frames(proto string, rng *rand.Rand, ids []string) string {
	id := pick(rng, ids)
	q := pick(rng, []string{"subscription{a}", "subscription S{a}", "query{a}", "mutation{a}", "bogus", ""})
	payload := fmt.Sprintf(`{"query":%q}`, q)
	if rng.Intn(8) == 0 {
		payload = pick(rng, []string{`{"query":5}`, `"str"`, `[1]`, `null`, `{}`, `{"QUERY":"query{a}"}`, `{"query":"query{a}","operationName":7}`, `{"query":"subscription{a}","variables":{"x":1}}`})
	}
	var wellformed []string
	if proto == "transport" {
		wellformed = []string{
			`{"type":"connection_init"}`, `{"type":"connection_init","payload":{"token":"t"}}`, `{"type":"connection_init","payload":{"reject":true}}`,
			`{"type":"ping"}`, `{"type":"ping","payload":{"k":"v"}}`, `{"type":"pong"}`,
			fmt.Sprintf(`{"id":%q,"type":"subscribe","payload":%s}`, id, payload),
			fmt.Sprintf(`{"id":%q,"type":"subscribe","payload":%s}`, id, payload),
			fmt.Sprintf(`{"id":%q,"type":"subscribe","payload":%s}`, id, payload),
			fmt.Sprintf(`{"id":%q,"type":"complete"}`, id),
			fmt.Sprintf(`{"id":%q,"type":"complete"}`, id),
		}
	} else {
		wellformed = []string{
			`{"type":"connection_init"}`, `{"type":"connection_init","payload":{"token":"t"}}`, `{"type":"connection_init","payload":{"reject":true}}`,
			`{"type":"connection_terminate"}`,
			fmt.Sprintf(`{"id":%q,"type":"start","payload":%s}`, id, payload),
			fmt.Sprintf(`{"id":%q,"type":"start","payload":%s}`, id, payload),
			fmt.Sprintf(`{"id":%q,"type":"start","payload":%s}`, id, payload),
			fmt.Sprintf(`{"id":%q,"type":"stop"}`, id),
			fmt.Sprintf(`{"id":%q,"type":"stop"}`, id),
		}
	}
	if rng.Intn(6) != 0 {
		return pick(rng, wellformed)
	}
	base := pick(rng, wellformed)
	switch rng.Intn(12) {
	case 0:
		return base[:len(base)-1-rng.Intn(len(base)-1)] // cut off
	case 1:
		return base + pick(rng, []string{"x", "{}", " 1", `{"type":"ping"}`, "]"})
	case 2:
		return pick(rng, []string{`{"type":"unknown"}`, `{"type":""}`, `{}`, `{"id":"1"}`, `{"type":"next","id":"1","payload":{}}`, `{"type":"connection_ack"}`, `{"type":"start","id":"1"}`, `{"type":"subscribe","id":"1"}`})
	case 3:
		return pick(rng, []string{`null`, `[]`, `"connection_init"`, `5`, `true`, `[{"type":"connection_init"}]`})
	case 4:
		return pick(rng, []string{`{"type":5}`, `{"type":null}`, `{"id":7,"type":"complete"}`, `{"id":null,"type":"complete"}`, `{"type":["ping"]}`, `{"type":{"a":1}}`})
	case 5:
		return pick(rng, []string{`{"TYPE":"ping"}`, `{"Type":"connection_init"}`, `{"type":"ping","type":"pong"}`, `{"type":"pong","Type":"ping"}`, `{"ID":"1","type":"complete"}`})
	case 6:
		return pick(rng, []string{``, ` `, `{`, `{"type"`, `{"type":"ping",}`, `{'type':'ping'}`, "{\"type\":\"pi\nng\"}", `{"type":"ping"}}`, `nul`, `{"type":"ping"}`, `{"type":"ping","payload":{"a":01}}`})
	case 7:
		return pick(rng, []string{`{"type":"ping","payload":null}`, `{"type":"ping","payload":"x"}`, `{"type":"ping","payload":[1,2]}`, `{"type":"ping","payload":{"n":1}}`, `{"type":"connection_init","payload":null}`, `{"type":"connection_init","payload":"reject"}`, `{"type":"connection_init","payload":[{"reject":1}]}`})
	case 8:
		return "  " + base + " \n"
	case 9:
		return strings.Replace(base, `"type"`, `"extra":{"deep":[1,{"x":null}]},"type"`, 1)
	case 10:
		return strings.Replace(base, `{`, `{"payload":{"query":"query{a}"},`, 1)
	default:
		return pick(rng, []string{`{"type":"complete"}`, `{"type":"stop"}`, `{"type":"subscribe","payload":{"query":"subscription{a}"}}`, `{"id":"","type":"subscribe","payload":{"query":"query{a}"}}`})
	}
}

func c19Gen(rng *rand.Rand) *c19Scenario {
	sc := &c19Scenario{Proto: pick(rng, []string{"transport", "transport", "legacy"})}
	sc.NilCtxInit = rng.Intn(10) == 0
	switch rng.Intn(12) {
	case 0:
		sc.InitTimeout = true
	case 1:
		sc.KeepAlive = true
	}
	ids := []string{"1", "2", "a"}
	n := 2 + rng.Intn(10)
	started := 0
	if rng.Intn(5) != 0 {
		sc.Ops = append(sc.Ops, c19Op{Kind: "send", Frame: `{"type":"connection_init"}`})
	}
	for len(sc.Ops) < n {
		if sc.KeepAlive {
			if rng.Intn(3) == 0 {
				sc.Ops = append(sc.Ops, c19Op{Kind: "ticks"})
			} else {
				sc.Ops = append(sc.Ops, c19Op{Kind: "send", Frame: pick(rng, []string{`{"type":"connection_init"}`, `{"type":"connection_init","payload":{"reject":true}}`,
					`{"type":"connection_init","payload":{"token":"t"}}`, `{"type":"ping"}`, `{"type":"unknown"}`})})
			}
			continue
		}
		if sc.InitTimeout && rng.Intn(4) == 0 {
			sc.Ops = append(sc.Ops, c19Op{Kind: "timeout"})
			continue
		}
		if started > 0 && rng.Intn(3) == 0 {
			op := c19Op{Kind: "exec", Inst: rng.Intn(started), Ok: rng.Intn(4) != 0}
			for k := rng.Intn(3); k > 0; k-- {
				op.Flush = append(op.Flush, 1+rng.Intn(9))
			}
			if rng.Intn(2) == 0 {
				t := 1 + rng.Intn(9)
				op.Tag = &t
			}
			sc.Ops = append(sc.Ops, op)
			continue
		}
		f := c19Frames(sc.Proto, rng, ids)
		if strings.Contains(f, `"subscribe"`) || strings.Contains(f, `"start"`) {
			started++
		}
		sc.Ops = append(sc.Ops, c19Op{Kind: "send", Frame: f})
	}
	return sc
}

func c19Corpus() []*c19Scenario {
	one, two := 1, 2
	return []*c19Scenario{
		// a failing query releases its id: the id can be used again
		{Proto: "transport", Ops: []c19Op{{Kind: "send", Frame: `{"type":"connection_init"}`}, {Kind: "send", Frame: `{"id":"1","type":"subscribe","payload":{"query":"query{a}"}}`},
			{Kind: "exec", Inst: 0, Ok: false}, {Kind: "send", Frame: `{"id":"1","type":"subscribe","payload":{"query":"query{a}"}}`}, {Kind: "exec", Inst: 1, Ok: true, Tag: &one}}},
		{Proto: "legacy", Ops: []c19Op{{Kind: "send", Frame: `{"type":"connection_init"}`}, {Kind: "send", Frame: `{"id":"1","type":"start","payload":{"query":"query{a}"}}`},
			{Kind: "exec", Inst: 0, Ok: false}, {Kind: "send", Frame: `{"id":"1","type":"start","payload":{"query":"query{a}"}}`}, {Kind: "exec", Inst: 1, Ok: true, Tag: &two}}},
		// cut-off and glued frames are syntax errors
		{Proto: "transport", Ops: []c19Op{{Kind: "send", Frame: `{"type":"connection_init"`}}},
		{Proto: "transport", Ops: []c19Op{{Kind: "send", Frame: `{"type":"connection_init"}{"type":"ping"}`}, {Kind: "send", Frame: `{"type":"ping"}`}}},
		// a refused init starts no keep-alive (legacy) / closes with 4401 (transport)
		{Proto: "legacy", KeepAlive: true, Ops: []c19Op{{Kind: "send", Frame: `{"type":"connection_init","payload":{"reject":true}}`}, {Kind: "ticks"}}},
		{Proto: "legacy", NilCtxInit: true, Ops: []c19Op{{Kind: "send", Frame: `{"type":"connection_init","payload":{"reject":true}}`}, {Kind: "send", Frame: `{"type":"connection_init"}`}}},
		{Proto: "transport", Ops: []c19Op{{Kind: "send", Frame: `{"type":"connection_init","payload":{"reject":true}}`}}},
		// duplicate id, second init, subscribe before init, unknown type, init timeout
		{Proto: "transport", Ops: []c19Op{{Kind: "send", Frame: `{"type":"connection_init"}`}, {Kind: "send", Frame: `{"id":"1","type":"subscribe","payload":{"query":"subscription{a}"}}`},
			{Kind: "send", Frame: `{"id":"1","type":"subscribe","payload":{"query":"subscription{a}"}}`}}},
		{Proto: "transport", Ops: []c19Op{{Kind: "send", Frame: `{"type":"connection_init"}`}, {Kind: "send", Frame: `{"type":"connection_init"}`}}},
		{Proto: "transport", Ops: []c19Op{{Kind: "send", Frame: `{"id":"1","type":"subscribe","payload":{"query":"subscription{a}"}}`}}},
		{Proto: "transport", InitTimeout: true, Ops: []c19Op{{Kind: "send", Frame: `{"type":"ping"}`}, {Kind: "timeout"}}},
		// client complete while the subscription is executing
		{Proto: "transport", Ops: []c19Op{{Kind: "send", Frame: `{"type":"connection_init"}`}, {Kind: "send", Frame: `{"id":"1","type":"subscribe","payload":{"query":"subscription{a}"}}`},
			{Kind: "exec", Inst: 0, Flush: []int{1}, Ok: true}, {Kind: "send", Frame: `{"id":"1","type":"complete"}`}, {Kind: "exec", Inst: 0, Flush: []int{2}, Ok: true}}},
	}
}

func runC19(run *Run, replay string) Spec {
	spec := Spec{
		Level: "proof",
		Rule: "client frame sequences (well-formed, out of order, duplicated ids, cut off, glued, wrong field types, case variants, unknown types) for graphql-transport-ws and graphql-ws against the real websocket.HandleWithOptions (protocol handler, read loop, real ExecutorEngine) with an in-memory transport client and scripted executors that block in Execute until the scenario decides their outcome; " +
			"the observed action sequence must be a run of the Lean transition system and the frames and close codes written must equal the model's outputs; a reference acceptor (operation messages only after ack, prescribed close codes, nothing after close) is evaluated on the implementation's output. non-trivial = at least one frame beyond connection_init; distinct = distinct scenarios",
		TrustedBase: []string{"Lean 4 kernel", "axioms: propext, Classical.choice, Quot.sound only (audited)",
			"Lean LTS GqlVerif.Proto.WsServer; frame decoding as modelled in the driver (Go encoding/json struct decoding: case-insensitive keys, null leaves a field, last assignment wins)",
			"this harness' in-memory TransportClient (refuses writes after a close) and scripted executor pool"},
		Assumptions: []string{"timers (init timeout, keep-alive, update interval) are abstract events: the harness uses short intervals and observes whether they fired",
			"the read loop is only as live as TransportClient.IsConnected: the real websocket.Client is not part of this check"},
	}
	curPath := filepath.Join(run.VerifDir, ".run", "current-C19-0.json")
	exec := func(sc *c19Scenario) {
		if sc.NilCtxInit && run.NViolations() > 0 {
			return // a violation with its own replay is in hand: do not risk losing it to a process abort
		}
		if sc.NilCtxInit {
			// only this shape can take the process down (a nil context handed to a goroutine): leave a note for the check
			_ = os.WriteFile(curPath, []byte(jsonStr(map[string]any{"scenario": sc})), 0o644)
		}
		trace, out, probs, sent := c19RunScenario(sc)
		c19Judge(run, sc, trace, out, probs, sent)
		key := ""
		if len(sc.Ops) > 1 {
			key = jsonStr(sc)
		}
		run.Count(key, "proto:"+sc.Proto)
		for _, o := range out {
			run.Feat("out:" + strings.SplitN(o, ":", 2)[0] + func() string {
				if strings.HasPrefix(o, "close:") {
					return o[5:]
				}
				return ""
			}())
		}
		run.mu.Lock()
		run.TracesVsImpl++
		run.mu.Unlock()
		if run.Evaluations <= 3 {
			run.Sample(map[string]any{"scenario": sc, "trace": trace, "out": out})
		}
	}
	if replay != "" {
		if b, err := os.ReadFile(replay); err == nil {
			var f struct {
				Violation struct {
					Input struct {
						Scenario c19Scenario `json:"scenario"`
					} `json:"input"`
				} `json:"violation"`
				Scenarios []struct {
					Scenario c19Scenario `json:"scenario"`
				} `json:"scenarios_in_flight"`
			}
			if json.Unmarshal(b, &f) == nil {
				if len(f.Violation.Input.Scenario.Ops) > 0 {
					exec(&f.Violation.Input.Scenario)
				}
				for _, s := range f.Scenarios {
					sc := s.Scenario
					exec(&sc)
				}
			}
		}
		_ = os.Remove(curPath)
		return spec
	}
	for _, sc := range c19Corpus() {
		exec(sc)
	}
	n := 1500
	if run.Tier == "thorough" {
		n = 30000
	}
	parallelFor(n, 12, func(k int) {
		if run.NViolations() < 5 {
			exec(c19Gen(subRng(run.Seed, k)))
		}
	})
	_ = os.Remove(curPath)
	return spec
}
