package main

// C04 — operation validation accepts exactly the spec-valid operations.
//
// Documents are generated valid by construction (C01's generator over the L1 supergraph schema with C03's extras) and
// then, for most cases, given ONE rule-targeted textual mutation.  The documented admission sequence of the execution
// engine — normalize the document, then validate the normalized operation — is run on each; its verdict must equal the
// verdict of the Lean reference validator Gql.Valid on the document as written (operation Q and the fragments it reaches).

import (
	"encoding/json"
	"fmt"
	"math/rand"
	"os"
	"regexp"
	"strings"
	"sync"

	"github.com/wundergraph/graphql-go-tools/execution/graphql"
	"github.com/wundergraph/graphql-go-tools/v2/pkg/ast"
	"github.com/wundergraph/graphql-go-tools/v2/pkg/astnormalization"
	"github.com/wundergraph/graphql-go-tools/v2/pkg/astparser"
	"github.com/wundergraph/graphql-go-tools/v2/pkg/astprinter"
	"github.com/wundergraph/graphql-go-tools/v2/pkg/astvalidation"
	"github.com/wundergraph/graphql-go-tools/v2/pkg/operationreport"
)

func init() { props["C04"] = runC04 }

type c04Case struct {
	Operation string          `json:"operation"`
	Variables json.RawMessage `json:"variables"`
	Mutation  string          `json:"mutation,omitempty"`
	Original  string          `json:"original,omitempty"`
}

// ---- schema and document as JSON for the Lean validator ---------------------------------------------------------------------

func c04TypeJSON(doc *ast.Document, ref int) map[string]any { return fedTypeJSON(doc, ref) }

func c04ArgDefs(doc *ast.Document, refs []int) []any {
	out := []any{}
	for _, r := range refs {
		out = append(out, map[string]any{"name": doc.InputValueDefinitionNameString(r), "type": c04TypeJSON(doc, doc.InputValueDefinitionType(r)),
			"hasDefault": doc.InputValueDefinitionHasDefaultValue(r)})
	}
	return out
}

func c04SchemaJSON(def *ast.Document) map[string]any {
	types := []any{}
	implementers := map[string][]string{}
	for _, n := range def.RootNodes {
		if n.Kind == ast.NodeKindObjectTypeDefinition {
			for _, ir := range def.ObjectTypeDefinitions[n.Ref].ImplementsInterfaces.Refs {
				implementers[def.TypeNameString(ir)] = append(implementers[def.TypeNameString(ir)], def.ObjectTypeDefinitionNameString(n.Ref))
			}
		}
	}
	fields := func(refs []int) []any {
		out := []any{}
		for _, fr := range refs {
			out = append(out, map[string]any{"name": def.FieldDefinitionNameString(fr), "type": c04TypeJSON(def, def.FieldDefinitionType(fr)),
				"args": c04ArgDefs(def, def.FieldDefinitions[fr].ArgumentsDefinition.Refs)})
		}
		return out
	}
	for _, n := range def.RootNodes {
		switch n.Kind {
		case ast.NodeKindObjectTypeDefinition:
			d := def.ObjectTypeDefinitions[n.Ref]
			types = append(types, map[string]any{"name": def.ObjectTypeDefinitionNameString(n.Ref), "kind": "OBJECT", "fields": fields(d.FieldsDefinition.Refs)})
		case ast.NodeKindInterfaceTypeDefinition:
			d := def.InterfaceTypeDefinitions[n.Ref]
			name := def.InterfaceTypeDefinitionNameString(n.Ref)
			types = append(types, map[string]any{"name": name, "kind": "INTERFACE", "fields": fields(d.FieldsDefinition.Refs), "possible": implementers[name]})
		case ast.NodeKindUnionTypeDefinition:
			d := def.UnionTypeDefinitions[n.Ref]
			var ms []string
			for _, mr := range d.UnionMemberTypes.Refs {
				ms = append(ms, def.TypeNameString(mr))
			}
			types = append(types, map[string]any{"name": def.UnionTypeDefinitionNameString(n.Ref), "kind": "UNION", "possible": ms})
		case ast.NodeKindEnumTypeDefinition:
			d := def.EnumTypeDefinitions[n.Ref]
			var vs []string
			for _, vr := range d.EnumValuesDefinition.Refs {
				vs = append(vs, def.EnumValueDefinitionNameString(vr))
			}
			types = append(types, map[string]any{"name": def.EnumTypeDefinitionNameString(n.Ref), "kind": "ENUM", "enumValues": vs})
		case ast.NodeKindScalarTypeDefinition:
			types = append(types, map[string]any{"name": def.ScalarTypeDefinitionNameString(n.Ref), "kind": "SCALAR"})
		case ast.NodeKindInputObjectTypeDefinition:
			d := def.InputObjectTypeDefinitions[n.Ref]
			types = append(types, map[string]any{"name": def.InputObjectTypeDefinitionNameString(n.Ref), "kind": "INPUT_OBJECT", "inputFields": c04ArgDefs(def, d.InputFieldsDefinition.Refs)})
		}
	}
	dirs := []any{}
	for _, n := range def.RootNodes {
		if n.Kind != ast.NodeKindDirectiveDefinition {
			continue
		}
		d := def.DirectiveDefinitions[n.Ref]
		var locs []string
		it := d.DirectiveLocations.Iterable()
		for it.Next() {
			locs = append(locs, it.Value().LiteralString())
		}
		dirs = append(dirs, map[string]any{"name": def.DirectiveDefinitionNameString(n.Ref), "locations": locs, "args": c04ArgDefs(def, d.ArgumentsDefinition.Refs), "repeatable": d.Repeatable.IsRepeatable})
	}
	return map[string]any{"types": types, "directives": dirs, "query": "Query", "mutation": "Mutation", "subscription": "Subscription"}
}

func c04ValueJSON(doc *ast.Document, v ast.Value) map[string]any {
	switch v.Kind {
	case ast.ValueKindInteger:
		return map[string]any{"k": "int", "raw": doc.IntValueRaw(v.Ref).String()}
	case ast.ValueKindFloat:
		return map[string]any{"k": "float", "raw": doc.FloatValueRaw(v.Ref).String()}
	case ast.ValueKindString:
		return map[string]any{"k": "str", "raw": doc.StringValueContentString(v.Ref)}
	case ast.ValueKindBoolean:
		return map[string]any{"k": "bool", "b": bool(doc.BooleanValue(v.Ref))}
	case ast.ValueKindNull:
		return map[string]any{"k": "null"}
	case ast.ValueKindEnum:
		return map[string]any{"k": "enum", "raw": doc.EnumValueNameString(v.Ref)}
	case ast.ValueKindVariable:
		return map[string]any{"k": "var", "raw": doc.VariableValueNameString(v.Ref)}
	case ast.ValueKindList:
		items := []any{}
		for _, r := range doc.ListValues[v.Ref].Refs {
			items = append(items, c04ValueJSON(doc, doc.Values[r]))
		}
		return map[string]any{"k": "list", "items": items}
	case ast.ValueKindObject:
		fs := []any{}
		for _, r := range doc.ObjectValues[v.Ref].Refs {
			fs = append(fs, map[string]any{"n": doc.ObjectFieldNameString(r), "v": c04ValueJSON(doc, doc.ObjectFieldValue(r))})
		}
		return map[string]any{"k": "obj", "fields": fs}
	}
	return map[string]any{"k": "null"}
}

func c04ArgsJSON(doc *ast.Document, refs []int) []any {
	out := []any{}
	for _, ar := range refs {
		out = append(out, map[string]any{"n": doc.ArgumentNameString(ar), "v": c04ValueJSON(doc, doc.Arguments[ar].Value)})
	}
	return out
}

func c04DirsJSON(doc *ast.Document, refs []int) []any {
	out := []any{}
	for _, d := range refs {
		out = append(out, map[string]any{"name": doc.DirectiveNameString(d), "args": c04ArgsJSON(doc, doc.Directives[d].Arguments.Refs)})
	}
	return out
}

func c04SelsJSON(doc *ast.Document, set int) []any {
	out := []any{}
	if set < 0 {
		return out
	}
	for _, sr := range doc.SelectionSets[set].SelectionRefs {
		sel := doc.Selections[sr]
		switch sel.Kind {
		case ast.SelectionKindField:
			f := sel.Ref
			m := map[string]any{"t": "field", "name": doc.FieldNameString(f), "alias": "", "dirs": c04DirsJSON(doc, doc.Fields[f].Directives.Refs), "args": c04ArgsJSON(doc, doc.Fields[f].Arguments.Refs), "sels": []any{}}
			if doc.FieldAliasIsDefined(f) {
				m["alias"] = doc.FieldAliasString(f)
			}
			if doc.Fields[f].HasSelections {
				m["sels"] = c04SelsJSON(doc, doc.Fields[f].SelectionSet)
			}
			out = append(out, m)
		case ast.SelectionKindInlineFragment:
			fr := sel.Ref
			m := map[string]any{"t": "inline", "cond": nil, "dirs": c04DirsJSON(doc, doc.InlineFragments[fr].Directives.Refs), "sels": c04SelsJSON(doc, doc.InlineFragments[fr].SelectionSet)}
			if doc.InlineFragmentHasTypeCondition(fr) {
				m["cond"] = doc.InlineFragmentTypeConditionNameString(fr)
			}
			out = append(out, m)
		case ast.SelectionKindFragmentSpread:
			out = append(out, map[string]any{"t": "spread", "name": doc.FragmentSpreadNameString(sel.Ref), "dirs": c04DirsJSON(doc, doc.FragmentSpreads[sel.Ref].Directives.Refs)})
		}
	}
	return out
}

func c04OpJSON(text string) (map[string]any, error) {
	doc, rep := astparser.ParseGraphqlDocumentString(text)
	if rep.HasErrors() {
		return nil, fmt.Errorf("%s", rep.Error())
	}
	op := map[string]any{"kind": "query", "sels": []any{}, "frags": []any{}, "vars": []any{}, "dirs": []any{}}
	found := false
	for _, n := range doc.RootNodes {
		switch n.Kind {
		case ast.NodeKindOperationDefinition:
			od := doc.OperationDefinitions[n.Ref]
			if found || doc.OperationDefinitionNameString(n.Ref) != "Q" {
				continue
			}
			found = true
			switch od.OperationType {
			case ast.OperationTypeMutation:
				op["kind"] = "mutation"
			case ast.OperationTypeSubscription:
				op["kind"] = "subscription"
			}
			if od.HasSelections {
				op["sels"] = c04SelsJSON(&doc, od.SelectionSet)
			}
			if od.HasDirectives {
				op["dirs"] = c04DirsJSON(&doc, od.Directives.Refs)
			}
			vars := []any{}
			if od.HasVariableDefinitions {
				for _, vr := range od.VariableDefinitions.Refs {
					v := map[string]any{"name": doc.VariableDefinitionNameString(vr), "type": c04TypeJSON(&doc, doc.VariableDefinitions[vr].Type)}
					if doc.VariableDefinitions[vr].DefaultValue.IsDefined {
						v["default"] = c04ValueJSON(&doc, doc.VariableDefinitionDefaultValue(vr))
					}
					vars = append(vars, v)
				}
			}
			op["vars"] = vars
		case ast.NodeKindFragmentDefinition:
			fd := doc.FragmentDefinitions[n.Ref]
			op["frags"] = append(op["frags"].([]any), map[string]any{"name": doc.FragmentDefinitionNameString(n.Ref), "typeCond": doc.FragmentDefinitionTypeNameString(n.Ref),
				"dirs": c04DirsJSON(&doc, fd.Directives.Refs), "sels": c04SelsJSON(&doc, fd.SelectionSet)})
		}
	}
	if !found {
		return nil, fmt.Errorf("no operation Q")
	}
	return op, nil
}

// ---- the admission sequence of the execution engine ---------------------------------------------------------------------------

var c04SchemaOnce sync.Once
var c04Schema *graphql.Schema
var c04SchemaLean map[string]any
var c04SchemaErr error

func c04GetSchema() (*graphql.Schema, map[string]any, error) {
	c04SchemaOnce.Do(func() {
		c04Schema, c04SchemaErr = graphql.NewSchemaFromString(fedL1Super)
		if c04SchemaErr != nil {
			return
		}
		def, err := c03Definition()
		if err != nil {
			c04SchemaErr = err
			return
		}
		c04SchemaLean = c04SchemaJSON(def)
	})
	return c04Schema, c04SchemaLean, c04SchemaErr
}

func c04Admit(schema *graphql.Schema, op string, vars []byte) (accepted bool, why string) {
	defer func() {
		if r := recover(); r != nil {
			accepted, why = false, fmt.Sprintf("panic: %v", r)
		}
	}()
	req := graphql.Request{Query: op, OperationName: "Q", Variables: vars}
	res, err := req.Normalize(schema,
		astnormalization.WithRemoveFragmentDefinitions(), astnormalization.WithRemoveUnusedVariables(), astnormalization.WithInlineFragmentSpreads(), astnormalization.WithEnableDefer(),
		astnormalization.WithPrevalidationRules(astvalidation.DeferStreamOnValidOperations(), astvalidation.DeferStreamHaveUniqueLabels(), astvalidation.DirectivesAreInValidLocations(), astvalidation.StreamAppliedToListFieldsOnly()))
	if err != nil {
		return false, "normalize: " + err.Error()
	}
	if !res.Successful {
		return false, "normalize: " + res.Errors.Error()
	}
	vres, err := req.ValidateForSchema(schema)
	if err != nil {
		return false, "validate: " + err.Error()
	}
	if !vres.Valid {
		return false, "validate: " + vres.Errors.Error()
	}
	return true, ""
}

// ---- rule-targeted mutations ------------------------------------------------------------------------------------------------------

var c04LeafRe = regexp.MustCompile(`[ {]((?:\w+: )?)(id|name|upc|body|username|street|code|price|weight|rating|title|level|inStock|fullName|__typename)( |\)|$)`)
var c04BraceRe = regexp.MustCompile(`\{ `)
var c04ArgsRe = regexp.MustCompile(`\((\w+): ([^()]*?)\)`)
var c04DeclRe = regexp.MustCompile(`\$(\w+): (\[?\w+\]?!?)`)

type c04Mutator struct {
	name string
	f    func(r *rand.Rand, op string) (string, bool)
}

func c04AtLeaf(r *rand.Rand, op string, f func(prefix, field string) string) (string, bool) {
	body := op
	hdr := ""
	if i := strings.Index(op, "{"); i >= 0 {
		hdr, body = op[:i], op[i:]
	}
	ms := c04LeafRe.FindAllStringSubmatchIndex(body, -1)
	if len(ms) == 0 {
		return op, false
	}
	m := ms[r.Intn(len(ms))]
	prefix, field := body[m[2]:m[3]], body[m[4]:m[5]]
	return hdr + body[:m[2]] + f(prefix, field) + body[m[5]:], true
}

func c04AfterBrace(r *rand.Rand, op string, ins string) (string, bool) {
	ms := c04BraceRe.FindAllStringIndex(op, -1)
	if len(ms) == 0 {
		return op, false
	}
	m := ms[r.Intn(len(ms))]
	return op[:m[1]] + ins + " " + op[m[1]:], true
}

func c04Header(op string, f func(hdr string) string) (string, bool) {
	i := strings.Index(op, "{")
	if i < 0 {
		return op, false
	}
	return f(op[:i]) + op[i:], true
}

var c04Mutators = []c04Mutator{
	{"unknown_field", func(r *rand.Rand, op string) (string, bool) {
		return c04AtLeaf(r, op, func(p, f string) string { return p + "nope" })
	}},
	{"leaf_with_selection", func(r *rand.Rand, op string) (string, bool) {
		return c04AtLeaf(r, op, func(p, f string) string { return p + f + " { id }" })
	}},
	{"unknown_argument", func(r *rand.Rand, op string) (string, bool) {
		return c04AtLeaf(r, op, func(p, f string) string { return p + f + "(bogus: 1)" })
	}},
	{"repeated_directive", func(r *rand.Rand, op string) (string, bool) {
		return c04AtLeaf(r, op, func(p, f string) string { return p + f + " @skip(if: false) @skip(if: false)" })
	}},
	{"unknown_directive", func(r *rand.Rand, op string) (string, bool) {
		return c04AtLeaf(r, op, func(p, f string) string { return p + f + " @bogus" })
	}},
	{"directive_without_required_argument", func(r *rand.Rand, op string) (string, bool) {
		return c04AtLeaf(r, op, func(p, f string) string { return p + f + " @skip" })
	}},
	{"directive_argument_of_wrong_type", func(r *rand.Rand, op string) (string, bool) {
		return c04AtLeaf(r, op, func(p, f string) string { return p + f + " @include(if: 3)" })
	}},
	{"directive_unknown_argument", func(r *rand.Rand, op string) (string, bool) {
		return c04AtLeaf(r, op, func(p, f string) string { return p + f + " @include(if: true, unless: false)" })
	}},
	{"conflicting_response_name", func(r *rand.Rand, op string) (string, bool) {
		return c04AtLeaf(r, op, func(p, f string) string {
			if p != "" || f == "__typename" {
				return p + f + " cf0: " + f + " cf0: __typename"
			}
			return "cf0: " + f + " cf0: __typename"
		})
	}},
	{"same_response_name_same_field", func(r *rand.Rand, op string) (string, bool) { // (valid: identical fields merge)
		return c04AtLeaf(r, op, func(p, f string) string { return p + f + " " + p + f })
	}},
	{"undefined_variable", func(r *rand.Rand, op string) (string, bool) {
		return c04AtLeaf(r, op, func(p, f string) string { return p + f + " @skip(if: $undefinedVar)" })
	}},
	{"unknown_fragment_spread", func(r *rand.Rand, op string) (string, bool) { return c04AfterBrace(r, op, "...Nope") }},
	{"unknown_type_condition", func(r *rand.Rand, op string) (string, bool) { return c04AfterBrace(r, op, "... on Nope { id }") }},
	{"scalar_type_condition", func(r *rand.Rand, op string) (string, bool) { return c04AfterBrace(r, op, "... on String { id }") }},
	{"fragment_on_other_type", func(r *rand.Rand, op string) (string, bool) { // impossible spread, unless the parent happens to be that type
		t := pick(r, []string{"Country { code }", "Product { upc }", "Review { id }", "Account { id }", "SearchResult { __typename }", "Address { street }"})
		return c04AfterBrace(r, op, "... on "+t)
	}},
	{"empty_inline_fragment_directive_only", func(r *rand.Rand, op string) (string, bool) { // (valid)
		return c04AfterBrace(r, op, "... @include(if: true) { __typename }")
	}},
	{"unused_variable", func(r *rand.Rand, op string) (string, bool) {
		return c04Header(op, func(h string) string {
			if strings.Contains(h, "(") {
				return strings.Replace(h, "(", "($unusedVar: Int, ", 1)
			}
			return strings.Replace(h, "Q", "Q($unusedVar: Int)", 1)
		})
	}},
	{"variable_of_unknown_type", func(r *rand.Rand, op string) (string, bool) {
		out, ok := c04Header(op, func(h string) string {
			if strings.Contains(h, "(") {
				return strings.Replace(h, "(", "($odd: Nope, ", 1)
			}
			return strings.Replace(h, "Q", "Q($odd: Nope)", 1)
		})
		if !ok {
			return op, false
		}
		return c04AtLeaf(r, out, func(p, f string) string { return p + f + " @skip(if: $odd)" })
	}},
	{"variable_of_output_type", func(r *rand.Rand, op string) (string, bool) {
		out, ok := c04Header(op, func(h string) string {
			if strings.Contains(h, "(") {
				return strings.Replace(h, "(", "($odd: User, ", 1)
			}
			return strings.Replace(h, "Q", "Q($odd: User)", 1)
		})
		if !ok {
			return op, false
		}
		return c04AtLeaf(r, out, func(p, f string) string { return p + f + " @skip(if: $odd)" })
	}},
	{"variable_type_changed", func(r *rand.Rand, op string) (string, bool) {
		i := strings.Index(op, "{")
		if i < 0 {
			return op, false
		}
		hdr := op[:i]
		ms := c04DeclRe.FindAllStringSubmatchIndex(hdr, -1)
		if len(ms) == 0 {
			return op, false
		}
		m := ms[r.Intn(len(ms))]
		old := hdr[m[4]:m[5]]
		nt := pick(r, []string{"Int", "String", "String!", "Boolean", "Boolean!", "ID", "ID!", "[Int]", "Float", "Int!"})
		if nt == old {
			return op, false
		}
		// a default value of the old type may no longer fit: drop it
		rest := hdr[m[5]:]
		if strings.HasPrefix(rest, " = ") {
			j := strings.IndexAny(rest[3:], ",)")
			if j >= 0 {
				rest = rest[3+j:]
			}
		}
		return hdr[:m[4]] + nt + rest + op[i:], true
	}},
	{"duplicate_variable", func(r *rand.Rand, op string) (string, bool) {
		i := strings.Index(op, "{")
		if i < 0 {
			return op, false
		}
		hdr := op[:i]
		m := c04DeclRe.FindStringSubmatch(hdr)
		if m == nil {
			return op, false
		}
		return strings.Replace(hdr, "(", "($"+m[1]+": "+m[2]+", ", 1) + op[i:], true
	}},
	{"operation_directive_in_wrong_location", func(r *rand.Rand, op string) (string, bool) {
		return c04Header(op, func(h string) string { return strings.TrimRight(h, " ") + " @skip(if: true) " })
	}},
	{"fragment_cycle", func(r *rand.Rand, op string) (string, bool) {
		i := strings.Index(op, "fragment F0 on ")
		if i < 0 {
			return op, false
		}
		j := strings.Index(op[i:], "{ ")
		if j < 0 {
			return op, false
		}
		return op[:i+j+2] + "...F0 " + op[i+j+2:], true
	}},
	{"directive_on_fragment_definition", func(r *rand.Rand, op string) (string, bool) {
		m := regexp.MustCompile(`fragment F\d+ on \w+ `).FindStringIndex(op)
		if m == nil {
			return op, false
		}
		return op[:m[1]] + "@include(if: true) " + op[m[1]:], true
	}},
	{"fragment_on_unknown_type", func(r *rand.Rand, op string) (string, bool) {
		m := regexp.MustCompile(`fragment F\d+ on (\w+) `).FindStringSubmatchIndex(op)
		if m == nil {
			return op, false
		}
		return op[:m[2]] + "Nope" + op[m[3]:], true
	}},
	{"conflict_across_object_types", func(r *rand.Rand, op string) (string, bool) { // a pure merging conflict when the parent is Account-typed
		// (same declared type for both fields: a difference in type would be reported whatever the parent types are)
		ins := "... on Admin { cf1: name } ... on User { cf1: name } ... on User { cf1: fullName } "
		if i := strings.Index(op, "accounts { "); i >= 0 && r.Intn(4) != 0 {
			j := i + len("accounts { ")
			return op[:j] + ins + op[j:], true
		}
		return c04AfterBrace(r, op, strings.TrimSpace(ins))
	}},
	{"duplicate_argument", func(r *rand.Rand, op string) (string, bool) {
		ms := c04ArgsRe.FindAllStringSubmatchIndex(op, -1)
		if len(ms) == 0 {
			return op, false
		}
		m := ms[r.Intn(len(ms))]
		return op[:m[1]-1] + ", " + op[m[2]:m[3]] + ": " + op[m[4]:m[5]] + op[m[1]-1:], true
	}},
	{"arguments_removed", func(r *rand.Rand, op string) (string, bool) { // invalid when one of them is required
		ms := c04ArgsRe.FindAllStringSubmatchIndex(op, -1)
		if len(ms) == 0 {
			return op, false
		}
		m := ms[r.Intn(len(ms))]
		if strings.HasPrefix(op[m[0]:], "(if:") || strings.HasPrefix(op[m[0]:], "(label:") {
			return op, false
		}
		return op[:m[0]] + op[m[1]:], true
	}},
	{"argument_value_replaced", func(r *rand.Rand, op string) (string, bool) { // the validator decides whether the new literal coerces
		ms := c04ArgsRe.FindAllStringSubmatchIndex(op, -1)
		if len(ms) == 0 {
			return op, false
		}
		m := ms[r.Intn(len(ms))]
		if strings.Contains(op[m[4]:m[5]], ",") {
			return op, false
		}
		nv := pick(r, []string{"null", "true", "1", "1.5", `"x"`, "[1]", `["x"]`, "{x: 1}", "ENUMVALUE", "[[1]]"})
		return op[:m[4]] + nv + op[m[5]:], true
	}},
}

type c04Worker struct {
	eng      *fedEngine
	universe *fedUniverse
	layout   *fedLayout
	shared   *c03Tools
	// the same without operation-name filtering (NormalizeOperation): its first walker stage is the one that carries
	// the fragment-cycle visitor
	sharedAnon *astnormalization.OperationNormalizer
}

func c04NewAnon() *astnormalization.OperationNormalizer {
	return astnormalization.NewWithOpts(astnormalization.WithRemoveFragmentDefinitions(), astnormalization.WithRemoveUnusedVariables(), astnormalization.WithInlineFragmentSpreads())
}

func c04NormalizeAnon(n *astnormalization.OperationNormalizer, def *ast.Document, op string, vars []byte) (printed string, errText string) {
	defer func() {
		if r := recover(); r != nil {
			errText = fmt.Sprintf("PANIC: %v", r)
		}
	}()
	doc, rep := astparser.ParseGraphqlDocumentString(op)
	if rep.HasErrors() {
		return "", "parse"
	}
	if len(vars) == 0 {
		vars = []byte("{}")
	}
	doc.Input.Variables = append([]byte{}, vars...)
	var report operationreport.Report
	n.NormalizeOperation(&doc, def, &report)
	if report.HasErrors() {
		return "", report.Error()
	}
	out, err := astprinter.PrintString(&doc)
	if err != nil {
		return "", err.Error()
	}
	return out, ""
}

func newC04Worker() (*c04Worker, error) {
	layouts, err := fedGetLayouts()
	if err != nil {
		return nil, err
	}
	eng, err := fedNewEngine(layouts["L1"], fedEngineOpts{})
	if err != nil {
		return nil, err
	}
	return &c04Worker{eng: eng, universe: fedL1Universe(rand.New(rand.NewSource(7))), layout: layouts["L1"], shared: newC03Tools(), sharedAnon: c04NewAnon()}, nil
}

// the real thing: ExecutionEngine.Execute rejects before planning, or executes
func (w *c04Worker) admitByEngine(pool *DriverPool, op string, vars []byte) (bool, string) {
	resp := w.eng.run(&fedSession{layout: w.layout, universe: w.universe, pool: pool}, op, "Q", vars)
	if resp.Err != nil {
		// the values of the variables are checked after the document was admitted: not a verdict about the document
		if msg := resp.Err.Error(); strings.HasPrefix(msg, "Variable \"$") && (strings.Contains(msg, "was not provided") || strings.Contains(msg, "got invalid value")) {
			return true, "admitted; then: " + resp.Err.Error()
		}
		return false, resp.Err.Error()
	}
	return true, ""
}

func c04Check(run *Run, c *c04Case) {
	w, err := newC04Worker()
	if err != nil {
		run.Violate(Violation{Kind: "oracle", Clause: "engine_builds", Detail: err.Error()}, "")
		return
	}
	defer w.eng.cancel()
	c04CheckWith(run, c, w)
}

func c04CheckWith(run *Run, c *c04Case, w *c04Worker) {
	schema, leanSchema, err := c04GetSchema()
	if err != nil {
		run.Violate(Violation{Kind: "oracle", Clause: "schema_builds", Detail: err.Error()}, "")
		return
	}
	in := map[string]any{"case": c}
	opj, err := c04OpJSON(c.Operation)
	if err != nil {
		run.Feat("does_not_parse")
		return
	}
	raw, err := run.Pool.Ask("c04.validate", map[string]any{"schema": leanSchema, "op": opj})
	if err != nil {
		run.Violate(Violation{Kind: "correspondence", Clause: "driver", Input: in, Detail: err.Error()}, "")
		return
	}
	var want struct {
		Valid  bool     `json:"valid"`
		Failed []string `json:"failed"`
	}
	_ = json.Unmarshal(raw, &want)
	got, why := w.admitByEngine(run.Pool, c.Operation, c.Variables)
	if got != want.Valid {
		clause := "accepts_only_valid"
		detail := fmt.Sprintf("ExecutionEngine.Execute admits %s although it is invalid (rule groups that fail: %v)", truncate(c.Operation, 900), want.Failed)
		if want.Valid {
			clause = "accepts_every_valid"
			detail = fmt.Sprintf("ExecutionEngine.Execute rejects the valid document %s: %s", truncate(c.Operation, 900), truncate(why, 400))
		}
		if c.Mutation != "" {
			detail += " | mutation: " + c.Mutation + " of " + truncate(c.Original, 500)
		}
		known := ""
		if got && !want.Valid {
			known = c04KnownAcceptance(run.Pool, schema, c)
			if known == "" && len(want.Failed) == 1 && want.Failed[0] == "merging" {
				known = "C04-response-name-conflicts-removed-by-field-deduplication"
			}
		}
		run.Violate(Violation{Kind: "oracle", Clause: clause, Input: in, Impl: map[string]any{"accepted": got, "why": why}, Model: want, Detail: detail}, known)
	}
	// a normalizer that has served other documents (valid and invalid ones) decides like a fresh one
	if def, err := c03Definition(); err == nil {
		fresh := c03Normalize(def, c.Operation, c.Variables, false)
		reused := c03NormalizeWith(w.shared, def, c.Operation, c.Variables, false)
		if os.Getenv("VERIF_DEBUG") != "" {
			fmt.Fprintf(os.Stderr, "mutated: fresh=%+v reused=%+v\n", fresh, reused)
		}
		if (fresh.Err == "") != (reused.Err == "") || fresh.Printed != reused.Printed {
			run.Violate(Violation{Kind: "oracle", Clause: "no_state_between_documents", Input: in, Impl: reused, Model: fresh,
				Detail: fmt.Sprintf("a reused normalizer says %q / %s; a fresh one says %q / %s", reused.Err, truncate(reused.Printed, 300), fresh.Err, truncate(fresh.Printed, 300))}, "")
		}
	}
	if def, err := c03Definition(); err == nil {
		for _, doc := range []string{c.Operation, c.Original} {
			if doc == "" {
				continue
			}
			fp, fe := c04NormalizeAnon(c04NewAnon(), def, doc, c.Variables)
			rp, re := c04NormalizeAnon(w.sharedAnon, def, doc, c.Variables)
			if (fe == "") != (re == "") || fp != rp {
				run.Violate(Violation{Kind: "oracle", Clause: "no_state_between_documents", Input: in, Impl: map[string]string{"printed": rp, "error": re}, Model: map[string]string{"printed": fp, "error": fe},
					Detail: fmt.Sprintf("NormalizeOperation on a reused normalizer says about %s: %q / %s; on a fresh one: %q / %s", truncate(doc, 300), re, truncate(rp, 300), fe, truncate(fp, 300))}, "")
				break
			}
		}
	}
	// … also right after it was stopped in the middle of a document: the unmutated original comes next
	if c.Mutation != "" && c.Original != "" {
		if def, err := c03Definition(); err == nil {
			fresh := c03Normalize(def, c.Original, c.Variables, false)
			reused := c03NormalizeWith(w.shared, def, c.Original, c.Variables, false)
			if os.Getenv("VERIF_DEBUG") != "" {
				fmt.Fprintf(os.Stderr, "original: fresh=%+v reused=%+v\n", fresh, reused)
			}
			if (fresh.Err == "") != (reused.Err == "") || fresh.Printed != reused.Printed {
				run.Violate(Violation{Kind: "oracle", Clause: "no_state_between_documents", Input: in, Impl: reused, Model: fresh,
					Detail: fmt.Sprintf("after %s, a reused normalizer says about the original document %q / %s; a fresh one says %q / %s", truncate(c.Operation, 300), reused.Err, truncate(reused.Printed, 300), fresh.Err, truncate(fresh.Printed, 300))}, "")
			}
		}
	}
	// the validator alone, on documents without fragment spreads (it is written for inlined documents)
	if !strings.Contains(c.Operation, "...F") && !strings.Contains(c.Operation, "...Nope") {
		if def, err := c03Definition(); err == nil {
			verr := c03Validate(def, c.Operation)
			if strings.HasPrefix(verr, "PANIC") {
				run.Violate(Violation{Kind: "oracle", Clause: "validator_does_not_panic", Input: in, Impl: verr, Detail: fmt.Sprintf("the default validator panics on %s: %s", truncate(c.Operation, 700), verr)}, "")
			}
			if (verr == "") != want.Valid {
				known := ""
				if verr == "" {
					switch {
					case c04BareDirRe.MatchString(c.Operation):
						known = "C04-required-directive-arguments-not-checked"
					case len(want.Failed) == 1 && want.Failed[0] == "merging" && regexp.MustCompile(`cf0: __typename|cf0: \w+ cf0: __typename`).MatchString(c.Operation):
						known = "C04-response-name-conflicts-removed-by-field-deduplication"
					}
				}
				detail := fmt.Sprintf("the default validator alone accepts %s although it is invalid (rule groups that fail: %v)", truncate(c.Operation, 900), want.Failed)
				if want.Valid {
					detail = fmt.Sprintf("the default validator alone rejects the valid document %s: %s", truncate(c.Operation, 900), truncate(verr, 300))
				}
				run.Violate(Violation{Kind: "oracle", Clause: "validator_alone", Input: in, Impl: verr, Model: want, Detail: detail}, known)
			}
			run.Feat("validator_alone")
		}
	}
	run.mu.Lock()
	run.TracesVsImpl++
	run.mu.Unlock()
	m := c.Mutation
	if m == "" {
		m = "none"
	}
	run.Feat(fmt.Sprintf("mutation:%s/valid=%v", m, want.Valid))
	for _, f := range want.Failed {
		run.Feat("fails:" + f)
	}
}

func runC04(run *Run, replay string) Spec {
	spec := Spec{
		Level:       "translation_validation",
		Rule:        "documents over the L1 supergraph schema, valid by construction, and the same with one of 29 rule-targeted mutations (unknown field / argument / directive / fragment / type, leaf and composite shape, repeated or misplaced directives, missing required arguments, duplicate arguments / variables / fragments, literals that do not coerce, null for non-null, undefined / unused / wrongly typed variables, fragment cycles, impossible spreads, conflicting response names, and three mutations that keep the document valid): accept(normalize; validate) = verdict of the Lean reference validator Gql.Valid on the document as written. non-trivial = mutated documents; distinct = distinct documents",
		TrustedBase: []string{"the Lean reference validator GqlVerif.Gql.Valid as the independent implementation of the specification's rules (theorems in Props.C04)", "the repository's parser for the JSON encoding of documents and of the schema", "the harness' generator and textual mutators"},
		Assumptions: []string{"single operation named Q per document; subscriptions, input objects, list arguments and custom scalars do not occur in the L1 schema", "definitions that normalization discards (unused fragments, other operations) are not judged"},
	}
	if _, _, err := c04GetSchema(); err != nil {
		run.Violate(Violation{Kind: "oracle", Clause: "schema_builds", Detail: err.Error()}, "")
		return spec
	}
	layouts, err := fedGetLayouts()
	if err != nil {
		run.Violate(Violation{Kind: "oracle", Clause: "layout_builds", Detail: err.Error()}, "")
		return spec
	}
	if replay != "" {
		if b, err := os.ReadFile(replay); err == nil {
			var f struct {
				Violation struct {
					Input struct {
						Case *c04Case `json:"case"`
					} `json:"input"`
				} `json:"violation"`
			}
			if json.Unmarshal(b, &f) == nil && f.Violation.Input.Case != nil {
				c04Check(run, f.Violation.Input.Case)
				run.Count("replay")
			}
		}
		return spec
	}
	n := 1500
	if run.Tier == "thorough" {
		n = 60000
	}
	var wg sync.WaitGroup
	ch := make(chan int, 64)
	for w := 0; w < 8; w++ {
		wg.Add(1)
		go func(w int) {
			defer wg.Done()
			worker, err := newC04Worker()
			if err != nil {
				run.Violate(Violation{Kind: "oracle", Clause: "engine_builds", Detail: err.Error()}, "")
				for range ch {
				}
				return
			}
			defer worker.eng.cancel()
			for k := range ch {
				if run.NViolations() >= 8 {
					continue
				}
				r := subRng(run.Seed, k)
				u := fedL1Universe(r)
				op, vars, _ := fedGenOperationX(r, layouts["L1"].super, u, 0, true)
				c := &c04Case{Operation: op, Variables: vars}
				if r.Intn(6) != 0 {
					m := c04Mutators[r.Intn(len(c04Mutators))]
					if mo, ok := m.f(r, op); ok && mo != op {
						c = &c04Case{Operation: mo, Variables: vars, Mutation: m.name, Original: op}
					}
				}
				run.SetCurrent(w, c)
				c04CheckWith(run, c, worker)
				run.Count(c.Operation)
			}
		}(w)
	}
	for k := 0; k < n; k++ {
		ch <- k
	}
	close(ch)
	wg.Wait()
	return spec
}

var c04SkipVarRe = regexp.MustCompile(`@(skip|include)\(if: \$(\w+)\)`)
var c04DupLiteralDirRe = regexp.MustCompile(`@(skip|include)\(if: (true|false)\) @(skip|include)\(if: (true|false)\)`)
var c04BareDirRe = regexp.MustCompile(`@(skip|include)( [^(]|$)`)

// which open finding, if any, explains that an invalid document was accepted
func c04KnownAcceptance(pool *DriverPool, schema *graphql.Schema, c *c04Case) string {
	// (e) the invalid part sits below a selection that @skip / @include removes for these variable values: with the
	// conditions neutralised the same document is rejected
	var vm map[string]any
	_ = json.Unmarshal(c.Variables, &vm)
	if vm == nil {
		vm = map[string]any{}
	}
	changed := false
	for _, m := range c04SkipVarRe.FindAllStringSubmatch(c.Operation, -1) {
		neutral := m[1] == "include"
		if b, ok := vm[m[2]].(bool); !ok || b != neutral {
			vm[m[2]] = neutral
			changed = true
		}
	}
	if changed {
		nv, _ := json.Marshal(vm)
		if ok, _ := c04Admit(schema, c.Operation, nv); !ok {
			return "C04-removed-selections-are-not-validated"
		}
	}
	if i := strings.Index(c.Operation, "{"); i > 0 {
		seen := map[string]bool{}
		for _, m := range c04DeclRe.FindAllStringSubmatch(c.Operation[:i], -1) {
			if seen[m[1]] {
				return "C04-duplicate-variable-definition-accepted"
			}
			seen[m[1]] = true
		}
	}
	if c04BareDirRe.MatchString(c.Operation) {
		return "C04-required-directive-arguments-not-checked"
	}
	// the only invalid parts are @skip / @include directives: without them (and without the variables only they use)
	// the reference validator accepts the document
	stripped := c04StripSkipInclude(c.Operation)
	if stripped != c.Operation {
		if opj, err := c04OpJSON(stripped); err == nil {
			if raw, err := pool.Ask("c04.validate", map[string]any{"schema": c04SchemaLean, "op": opj}); err == nil {
				var res struct {
					Valid bool `json:"valid"`
				}
				_ = json.Unmarshal(raw, &res)
				if res.Valid {
					return "C04-evaluated-skip-include-directives-are-not-validated"
				}
			}
		}
	}
	return ""
}

var c04AnySkipIncludeRe = regexp.MustCompile(` @(skip|include)(\([^)]*\))?`)

var c04FragDefDirRe = regexp.MustCompile(`(fragment \w+ on \w+) @`)

func c04StripSkipInclude(op string) string {
	// (directives on fragment definitions and on the operation are not evaluated by normalization: they stay)
	out := c04FragDefDirRe.ReplaceAllString(op, "$1 \x00")
	if i := strings.Index(out, "{"); i > 0 {
		out = strings.ReplaceAll(out[:i], " @", " \x00") + out[i:]
	}
	out = c04AnySkipIncludeRe.ReplaceAllString(out, "")
	out = strings.ReplaceAll(out, "\x00", "@")
	i := strings.Index(out, "{")
	if i < 0 {
		return out
	}
	hdr, body := out[:i], out[i:]
	// drop the definitions of variables nothing uses any more
	for _, m := range c04DeclRe.FindAllStringSubmatch(hdr, -1) {
		if regexp.MustCompile(`\$` + m[1] + `\b`).MatchString(body) {
			continue
		}
		re := regexp.MustCompile(`\$` + m[1] + `: \[?\w+\]?!?( = [^,)]*)?(, )?`)
		hdr = re.ReplaceAllString(hdr, "")
	}
	hdr = strings.Replace(hdr, ", )", ")", 1)
	hdr = strings.Replace(hdr, "()", "", 1)
	return hdr + body
}
