package main

// C09, subgraph-operation minification: astminify.Minify rewrites repeated selection sets of an operation into fragments.  The
// minified operation must mean the same: executed by the reference executor on a universe it must give the same data and errors
// as the operation it was made from.  (The engine applies Minify to the operations it sends to subgraphs; it cannot be
// switched through the execution engine's public configuration, so the function is exercised directly.)

import (
	"bytes"
	"encoding/json"
	"fmt"
	"math/rand"
	"strings"

	"github.com/wundergraph/graphql-go-tools/v2/pkg/ast"
	"github.com/wundergraph/graphql-go-tools/v2/pkg/astminify"
)

func c09MinifyCheck(run *Run, r *rand.Rand, l *fedLayout) {
	def, err := c03Definition()
	if err != nil {
		run.Violate(Violation{Kind: "oracle", Clause: "definition_builds", Detail: err.Error()}, "")
		return
	}
	u := fedL1Universe(r)
	op, vars, _ := fedGenOperation(r, l.super, u)
	norm := c03Normalize(def, op, vars, false)
	if norm.Err != "" {
		run.Feat("minify:normalization_rejects")
		return
	}
	// repeat the root selections under aliases so that whole selection sets occur more than once
	body := norm.Printed
	open := strings.Index(body, "{")
	if open < 0 || !strings.HasSuffix(strings.TrimSpace(body), "}") {
		return
	}
	head, inner := body[:open], strings.TrimSpace(body[open+1:len(strings.TrimSpace(body))-1])
	written := body
	if !strings.Contains(inner, "...") && r.Intn(4) > 0 {
		// only when every root selection is a plain field: prefix each with a second alias
		var again []string
		depth := 0
		start := 0
		for i := 0; i <= len(inner); i++ {
			if i == len(inner) || (depth == 0 && inner[i] == ' ' && i+1 < len(inner) && inner[i+1] != '{' && inner[i+1] != '(' && inner[i+1] != '@' && !strings.HasSuffix(strings.TrimSpace(inner[start:i]), ":")) {
				if seg := strings.TrimSpace(inner[start:i]); seg != "" {
					again = append(again, seg)
				}
				start = i
				continue
			}
			switch inner[i] {
			case '{', '(':
				depth++
			case '}', ')':
				depth--
			}
		}
		var parts []string
		for k, seg := range again {
			name := seg
			if c := strings.Index(seg, ":"); c > 0 && !strings.ContainsAny(seg[:c], "({ ") {
				name = strings.TrimSpace(seg[c+1:])
			}
			parts = append(parts, seg, fmt.Sprintf("zz%d: %s", k, name))
		}
		written = head + "{" + strings.Join(parts, " ") + "}"
		if renorm := c03Normalize(def, written, []byte(norm.Vars), false); renorm.Err == "" {
			written = renorm.Printed
		} else {
			written = body
		}
	}
	c09MinifyEval(run, l, def, written, norm.Vars, u)
}

// replay of a recorded minification case
func c09MinifyReplay(run *Run, l *fedLayout, input []byte) bool {
	var in struct {
		Minify    bool         `json:"minify"`
		Operation string       `json:"operation"`
		Variables string       `json:"variables"`
		Universe  *fedUniverse `json:"universe"`
	}
	if json.Unmarshal(input, &in) != nil || !in.Minify || in.Universe == nil {
		return false
	}
	def, err := c03Definition()
	if err != nil {
		return false
	}
	c09MinifyEval(run, l, def, in.Operation, in.Variables, in.Universe)
	run.Count("replay")
	return true
}

func c09MinifyEval(run *Run, l *fedLayout, def *ast.Document, written string, vars string, u *fedUniverse) {
	norm := struct{ Vars string }{vars}
	in := map[string]any{"minify": true, "operation": written, "variables": norm.Vars, "universe": u}
	for _, sortAST := range []bool{false, true} {
		var out bytes.Buffer
		var made bool
		var merr error
		func() {
			defer func() {
				if p := recover(); p != nil {
					merr = fmt.Errorf("panic: %v", p)
				}
			}()
			made, merr = astminify.NewMinifier().Minify([]byte(written), def, astminify.MinifyOptions{SortAST: sortAST}, &out)
		}()
		if merr != nil {
			run.Violate(Violation{Kind: "oracle", Clause: "minify_total", Input: in, Detail: merr.Error()}, "")
			return
		}
		if !made {
			run.Feat("minify:nothing_to_replace")
			continue
		}
		minified := out.String()
		d0, e0, err0 := fedReference(run.Pool, l, u, written, "", []byte(norm.Vars))
		d1, e1, err1 := fedReference(run.Pool, l, u, minified, "", []byte(norm.Vars))
		if err0 != nil {
			run.Feat("minify:reference_rejects_original")
			return
		}
		if err1 != nil {
			run.Violate(Violation{Kind: "oracle", Clause: "minified_operation_parses", Input: in, Impl: minified, Detail: err1.Error()}, "")
			return
		}
		if !fedJSONEqual(d0, d1) || (len(e0) == 0) != (len(e1) == 0) {
			run.Violate(Violation{Kind: "oracle", Clause: "minification_preserves_meaning", Input: in, Impl: minified,
				Detail: fmt.Sprintf("sortAST=%v: the operation means %s (errors %v); minified to %s it means %s (errors %v)", sortAST, truncate(jsonStr(d0), 500), e0, truncate(minified, 600), truncate(jsonStr(d1), 500), e1)}, "")
			return
		}
		run.Feat(fmt.Sprintf("minify:replaced:sort=%v", sortAST))
		run.mu.Lock()
		run.TracesVsImpl++
		run.mu.Unlock()
	}
}
