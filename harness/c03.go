package main

// C03 — normalization preserves operation meaning and validity, is idempotent and canonical.
//
// Valid operations (C01's generator over the supergraph schema of layout L1: fragments, aliases, @skip/@include,
// literals, provided / defaulted / omitted / null variables) are normalized with the documented default options
// (variable extraction, fragment inlining, fragment-definition and unused-variable removal).  The Lean reference
// executor gives the meaning of the original (operation, variables) and of the normalized pair on a generated universe;
// the default operation validator must accept the normalized operation; normalizing again must change nothing; and
// reformulations of the operation (renamed variables, duplicated fields, extra fragment structure, literal arguments
// turned into variables) must reach the same printed form after the variables mapper.

import (
	"encoding/json"
	"fmt"
	"math/rand"
	"os"
	"regexp"
	"strings"
	"sync"

	"github.com/wundergraph/graphql-go-tools/v2/pkg/ast"
	"github.com/wundergraph/graphql-go-tools/v2/pkg/astnormalization"
	"github.com/wundergraph/graphql-go-tools/v2/pkg/astparser"
	"github.com/wundergraph/graphql-go-tools/v2/pkg/astprinter"
	"github.com/wundergraph/graphql-go-tools/v2/pkg/asttransform"
	"github.com/wundergraph/graphql-go-tools/v2/pkg/astvalidation"
	"github.com/wundergraph/graphql-go-tools/v2/pkg/operationreport"
)

func init() { props["C03"] = runC03 }

type c03Case struct {
	Universe  *fedUniverse    `json:"universe"`
	Operation string          `json:"operation"`
	Variables json.RawMessage `json:"variables"`
}

var c03DefOnce sync.Once
var c03Def *ast.Document
var c03DefErr error

func c03Definition() (*ast.Document, error) {
	c03DefOnce.Do(func() {
		doc, rep := astparser.ParseGraphqlDocumentString(fedL1Super)
		if rep.HasErrors() {
			c03DefErr = fmt.Errorf("%s", rep.Error())
			return
		}
		if err := asttransform.MergeDefinitionWithBaseSchema(&doc); err != nil {
			c03DefErr = err
			return
		}
		c03Def = &doc
	})
	return c03Def, c03DefErr
}

type c03Norm struct {
	Printed string
	Vars    string
	Err     string
}

// one normalizer and one mapper per worker, reused for every document (state must not leak from one document to the next)
type c03Tools struct {
	n *astnormalization.OperationNormalizer
	m *astnormalization.VariablesMapper
}

func newC03Tools() *c03Tools {
	return &c03Tools{
		n: astnormalization.NewWithOpts(astnormalization.WithExtractVariables(), astnormalization.WithRemoveFragmentDefinitions(),
			astnormalization.WithRemoveUnusedVariables(), astnormalization.WithInlineFragmentSpreads(), astnormalization.WithRemoveNotMatchingOperationDefinitions()),
		m: astnormalization.NewVariablesMapper(),
	}
}

// the documented default normalization of (operation, variables); mapper: also canonicalise the variable names
func c03Normalize(def *ast.Document, op string, vars []byte, mapper bool) c03Norm {
	return c03NormalizeWith(nil, def, op, vars, mapper)
}

func c03NormalizeWith(tools *c03Tools, def *ast.Document, op string, vars []byte, mapper bool) c03Norm {
	if tools == nil {
		tools = newC03Tools()
	}
	doc, rep := astparser.ParseGraphqlDocumentString(op)
	if rep.HasErrors() {
		return c03Norm{Err: "parse: " + rep.Error()}
	}
	if len(vars) == 0 {
		vars = []byte("{}")
	}
	doc.Input.Variables = append([]byte{}, vars...)
	var report operationreport.Report
	tools.n.NormalizeNamedOperation(&doc, def, []byte("Q"), &report)
	if report.HasErrors() {
		return c03Norm{Err: "normalize: " + report.Error()}
	}
	if mapper {
		var r2 operationreport.Report
		tools.m.NormalizeOperation(&doc, def, &r2)
		if r2.HasErrors() {
			return c03Norm{Err: "mapper: " + r2.Error()}
		}
	}
	out, err := astprinter.PrintString(&doc)
	if err != nil {
		return c03Norm{Err: "print: " + err.Error()}
	}
	return c03Norm{Printed: out, Vars: string(doc.Input.Variables)}
}

func c03Validate(def *ast.Document, op string) (verdict string) {
	defer func() {
		if r := recover(); r != nil {
			verdict = fmt.Sprintf("PANIC: %v", r)
		}
	}()
	doc, rep := astparser.ParseGraphqlDocumentString(op)
	if rep.HasErrors() {
		return "parse: " + rep.Error()
	}
	var report operationreport.Report
	astvalidation.DefaultOperationValidator().Validate(&doc, def, &report)
	if report.HasErrors() {
		return report.Error()
	}
	return ""
}

func c03JSONEq(a, b string) bool {
	var x, y any
	if json.Unmarshal([]byte(a), &x) != nil || json.Unmarshal([]byte(b), &y) != nil {
		return a == b
	}
	return fedJSONEqual(x, y)
}

// ---- reformulations ------------------------------------------------------------------------------------------------------

var c03InnerSetRe = regexp.MustCompile(`\{ ([^{}]+) \}`)

// duplicate the content of one innermost selection set: { a b } -> { a b a b }
func c03DuplicateFields(r *rand.Rand, op string) (string, bool) {
	ms := c03InnerSetRe.FindAllStringSubmatchIndex(op, -1)
	if len(ms) == 0 {
		return op, false
	}
	m := ms[r.Intn(len(ms))]
	inner := op[m[2]:m[3]]
	if strings.Contains(inner, "...") {
		return op, false
	}
	return op[:m[2]] + inner + " " + inner + op[m[3]:], true
}

// wrap the content of one innermost selection set into an inline fragment without type condition
func c03WrapInline(r *rand.Rand, op string) (string, bool) {
	ms := c03InnerSetRe.FindAllStringSubmatchIndex(op, -1)
	if len(ms) == 0 {
		return op, false
	}
	m := ms[r.Intn(len(ms))]
	inner := op[m[2]:m[3]]
	// (not the body of a fragment definition or the operation's variable list)
	return op[:m[2]] + "... { " + inner + " }" + op[m[3]:], true
}

var c03LitArgRe = regexp.MustCompile(`\b(first|term|id|upc): (\d+|"[^"]*")`)

// turn one literal argument into a variable with that value
func c03LiteralToVariable(r *rand.Rand, op string, vars []byte) (string, []byte, bool) {
	ms := c03LitArgRe.FindAllStringSubmatchIndex(op, -1)
	if len(ms) == 0 {
		return op, vars, false
	}
	m := ms[r.Intn(len(ms))]
	arg, lit := op[m[2]:m[3]], op[m[4]:m[5]]
	typ := map[string]string{"first": "Int", "term": "String!", "id": "ID!", "upc": "ID!"}[arg]
	name := "lit0"
	out := op[:m[4]] + "$" + name + op[m[5]:]
	if strings.HasPrefix(out, "query Q(") {
		out = "query Q($" + name + ": " + typ + ", " + out[len("query Q("):]
	} else if strings.HasPrefix(out, "query Q {") {
		out = "query Q($" + name + ": " + typ + ") {" + out[len("query Q {"):]
	} else {
		return op, vars, false
	}
	var vm map[string]any
	_ = json.Unmarshal(vars, &vm)
	if vm == nil {
		vm = map[string]any{}
	}
	var val any
	_ = json.Unmarshal([]byte(lit), &val)
	vm[name] = val
	b, _ := json.Marshal(vm)
	return out, b, true
}

func c03Check(run *Run, c *c03Case, r *rand.Rand) { c03CheckWith(run, c, r, nil) }

func c03CheckWith(run *Run, c *c03Case, r *rand.Rand, shared *c03Tools) {
	def, err := c03Definition()
	if err != nil {
		run.Violate(Violation{Kind: "oracle", Clause: "schema_builds", Detail: err.Error()}, "")
		return
	}
	layouts, err := fedGetLayouts()
	if err != nil {
		return
	}
	l := layouts["L1"]
	in := map[string]any{"case": c}
	// (the default validator is written for normalized documents: it reports every remaining fragment spread as a
	// cycle, so the original is not validated here; the generator produces valid operations by construction, see C01)
	n1 := c03Normalize(def, c.Operation, c.Variables, false)
	if shared != nil {
		// a normalizer that served other documents before must give the result of a fresh one
		ns := c03NormalizeWith(shared, def, c.Operation, c.Variables, false)
		if ns.Err != n1.Err || ns.Printed != n1.Printed || !c03JSONEq(ns.Vars, n1.Vars) {
			run.Violate(Violation{Kind: "oracle", Clause: "no_state_between_documents", Input: in, Impl: ns, Model: n1,
				Detail: fmt.Sprintf("a reused normalizer gives %s | %s %s; a fresh one gives %s | %s %s", truncate(ns.Printed, 500), truncate(ns.Vars, 200), ns.Err, truncate(n1.Printed, 500), truncate(n1.Vars, 200), n1.Err)}, "")
		}
	}
	if n1.Err != "" {
		run.Violate(Violation{Kind: "oracle", Clause: "normalizes", Input: in, Detail: "normalization of a valid operation fails: " + n1.Err}, "")
		return
	}
	// (1) meaning
	d0, e0, err0 := fedReference(run.Pool, l, c.Universe, c.Operation, "Q", c.Variables)
	d1, e1, err1 := fedReference(run.Pool, l, c.Universe, n1.Printed, "Q", []byte(n1.Vars))
	if err0 != nil || err1 != nil {
		run.Violate(Violation{Kind: "correspondence", Clause: "driver", Input: in, Detail: fmt.Sprintf("%v / %v (normalized: %s)", err0, err1, truncate(n1.Printed, 400))}, "")
		return
	}
	// (an emptied selection set gets the placeholder `__internal_typename: __typename`, which the resolver drops again)
	d1 = c03DropInternal(d1)
	if !fedJSONEqual(d0, d1) || len(e0) != len(e1) {
		run.Violate(Violation{Kind: "oracle", Clause: "same_meaning", Input: in, Impl: map[string]any{"normalized": n1.Printed, "variables": n1.Vars}, Model: d0,
			Detail: fmt.Sprintf("original means %s (%d errors); normalized %s with %s means %s (%d errors)", truncate(jsonStr(d0), 600), len(e0), truncate(n1.Printed, 500), truncate(n1.Vars, 200), truncate(jsonStr(d1), 600), len(e1))}, "")
	}
	// (2) validity
	if e := c03Validate(def, n1.Printed); e != "" {
		run.Violate(Violation{Kind: "oracle", Clause: "still_valid", Input: in, Impl: n1.Printed, Detail: fmt.Sprintf("the normalized operation %s is rejected: %s", truncate(n1.Printed, 600), e)}, "")
	}
	// (3) idempotence
	n2 := c03Normalize(def, n1.Printed, []byte(n1.Vars), false)
	if n2.Err != "" || n2.Printed != n1.Printed || !c03JSONEq(n2.Vars, n1.Vars) {
		run.Violate(Violation{Kind: "oracle", Clause: "idempotent", Input: in, Impl: map[string]any{"once": n1, "twice": n2},
			Detail: fmt.Sprintf("normalizing again changes the result: %s | %s  ->  %s | %s %s", truncate(n1.Printed, 500), truncate(n1.Vars, 200), truncate(n2.Printed, 500), truncate(n2.Vars, 200), n2.Err)}, "")
	}
	// (4) canonical forms
	canon := c03Normalize(def, c.Operation, c.Variables, true)
	if canon.Err != "" {
		run.Violate(Violation{Kind: "oracle", Clause: "normalizes", Input: in, Detail: "variables mapper fails: " + canon.Err}, "")
		return
	}
	type ref struct {
		name string
		op   string
		vars []byte
	}
	var refs []ref
	rn := c09Rename(c09Request{Operation: c.Operation, Variables: string(c.Variables)})
	refs = append(refs, ref{"renamed_variables", rn.Operation, []byte(rn.Variables)})
	if op, ok := c03DuplicateFields(r, c.Operation); ok {
		refs = append(refs, ref{"duplicated_fields", op, c.Variables})
	}
	if op, ok := c03WrapInline(r, c.Operation); ok {
		refs = append(refs, ref{"extra_inline_fragment", op, c.Variables})
	}
	if op, vars, ok := c03LiteralToVariable(r, c.Operation, c.Variables); ok {
		refs = append(refs, ref{"literal_to_variable", op, vars})
	}
	for _, rf := range refs {
		cn := c03Normalize(def, rf.op, rf.vars, true)
		if cn.Err != "" {
			run.Violate(Violation{Kind: "oracle", Clause: "normalizes", Input: map[string]any{"case": c, "reformulation": rf.name, "operation": rf.op}, Detail: cn.Err}, "")
			continue
		}
		if cn.Printed != canon.Printed {
			known := ""
			if rf.name == "literal_to_variable" && c03RepeatedLiteral(c.Operation) {
				known = "C03-equal-literals-share-one-extracted-variable"
			}
			run.Violate(Violation{Kind: "oracle", Clause: "canonical:" + rf.name, Input: map[string]any{"case": c, "reformulation": rf.name, "operation": rf.op, "variables": string(rf.vars)},
				Impl: cn.Printed, Model: canon.Printed,
				Detail: fmt.Sprintf("the reformulation %s reaches %s; the original reaches %s", truncate(rf.op, 500), truncate(cn.Printed, 600), truncate(canon.Printed, 600))}, known)
		}
		run.Feat("reformulation:" + rf.name)
	}
	run.mu.Lock()
	run.TracesVsImpl++
	run.mu.Unlock()
	if n1.Vars != "{}" && n1.Vars != string(c.Variables) {
		run.Feat("variables_changed")
	}
	if strings.Contains(c.Operation, "fragment ") {
		run.Feat("named_fragments")
	}
}

func runC03(run *Run, replay string) Spec {
	spec := Spec{
		Level:       "translation_validation",
		Rule:        "valid generated operations over the L1 supergraph schema × generated universes: Lean reference executor on (operation, variables) = on normalize(operation, variables); the default validator accepts the normalized operation; normalize is a fixed point on its output (printed form and variables); renamed variables, duplicated fields, an extra inline fragment and a literal argument turned into a variable reach the same printed form after the variables mapper. non-trivial = operations whose normalization changes the variables or that use named fragments; distinct = distinct (operation, variables, universe)",
		TrustedBase: []string{"the Lean reference executor GqlVerif.Gql.Exec as the meaning of an operation on a backend (the universe)", "the repository's parser, printer and default operation validator for the validity check", "the harness' operation generator and textual reformulations"},
		Assumptions: []string{"the placeholder `__internal_typename: __typename` normalization puts into a selection set that @skip/@include emptied is not part of the response (the resolver drops it)", "list coercion and input-object default injection are not exercised: the L1 schema has no list or input-object arguments", "backends are universes of the Lean executor, not arbitrary resolvers"},
	}
	def, err := c03Definition()
	if err != nil {
		run.Violate(Violation{Kind: "oracle", Clause: "schema_builds", Detail: err.Error()}, "")
		return spec
	}
	_ = def
	layouts, err := fedGetLayouts()
	if err != nil {
		run.Violate(Violation{Kind: "oracle", Clause: "layout_builds", Detail: err.Error()}, "")
		return spec
	}
	if replay != "" {
		if b, err := os.ReadFile(replay); err == nil {
			var f struct {
				Violation struct {
					Input struct {
						Case *c03Case `json:"case"`
					} `json:"input"`
				} `json:"violation"`
			}
			if json.Unmarshal(b, &f) == nil && f.Violation.Input.Case != nil {
				for k := 0; k < 8; k++ {
					c03Check(run, f.Violation.Input.Case, rand.New(rand.NewSource(int64(k))))
				}
				run.Count("replay")
			}
		}
		return spec
	}
	n := 600
	if run.Tier == "thorough" {
		n = 30000
	}
	var wg sync.WaitGroup
	ch := make(chan int, 64)
	for w := 0; w < 8; w++ {
		wg.Add(1)
		go func(w int) {
			defer wg.Done()
			shared := newC03Tools()
			for k := range ch {
				if run.NViolations() >= 6 {
					continue
				}
				r := subRng(run.Seed, k)
				u := fedL1Universe(r)
				op, vars, feats := fedGenOperationX(r, layouts["L1"].super, u, 0, true)
				c := &c03Case{Universe: u, Operation: op, Variables: vars}
				run.SetCurrent(w, c)
				c03CheckWith(run, c, r, shared)
				for f := range feats {
					if f == "arg:variableDefaultButNull" || f == "sel:interfaceWrapped" || f == "arg:variableDefault" || f == "arg:variableNull" || f == "arg:variableOmitted" {
						run.Feat(f)
					}
				}
				run.Count(op + string(vars))
			}
		}(w)
	}
	for k := 0; k < n; k++ {
		ch <- k
	}
	close(ch)
	wg.Wait()
	return spec
}

func c03DropInternal(v any) any {
	switch x := v.(type) {
	case map[string]any:
		out := map[string]any{}
		for k, y := range x {
			if k == "__internal_typename" {
				continue
			}
			out[k] = c03DropInternal(y)
		}
		return out
	case []any:
		out := make([]any, len(x))
		for i, y := range x {
			out[i] = c03DropInternal(y)
		}
		return out
	}
	return v
}

// does some argument literal occur twice in the operation (variable extraction gives equal literals one variable)?
func c03RepeatedLiteral(op string) bool {
	seen := map[string]bool{}
	for _, m := range c03LitArgRe.FindAllStringSubmatch(op, -1) {
		if seen[m[2]] {
			return true
		}
		seen[m[2]] = true
	}
	return false
}
