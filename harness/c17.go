package main

// C17 — introspection describes exactly the configured schema.
//
// Structured schemas (objects, interfaces implementing interfaces, unions, enums with deprecations, input objects
// and arguments with defaults of every kind, custom scalars, custom directives, optional mutation / subscription
// roots) are printed to SDL.  (G) the real introspection.Generator's data must say exactly what the Lean model
// GqlVerif.Misc.Introspection.generate says about the schema (compared as sorted fact lists, type references with
// their nesting and leaf kinds); (R) the real JsonConverter turns that data back into a document whose own
// introspection must be the same (round trip); (E) the execution engine's answer to the standard introspection
// query for the schema must state the same facts, also when engines for different schemas are built one after the
// other.

import (
	"bytes"
	"context"
	"encoding/json"
	"fmt"
	"math/rand"
	"os"
	"sort"
	"strings"

	"github.com/jensneuse/abstractlogger"

	"github.com/wundergraph/graphql-go-tools/execution/engine"
	"github.com/wundergraph/graphql-go-tools/execution/graphql"
	"github.com/wundergraph/graphql-go-tools/v2/pkg/astprinter"
	"github.com/wundergraph/graphql-go-tools/v2/pkg/engine/resolve"
	"github.com/wundergraph/graphql-go-tools/v2/pkg/introspection"
	"github.com/wundergraph/graphql-go-tools/v2/pkg/operationreport"
)

func init() { props["C17"] = runC17 }

type c17Ref struct {
	Kind string  `json:"k"` // named | list | nonnull
	Name string  `json:"n,omitempty"`
	Of   *c17Ref `json:"of,omitempty"`
}

func (r *c17Ref) sdl() string {
	switch r.Kind {
	case "list":
		return "[" + r.Of.sdl() + "]"
	case "nonnull":
		return r.Of.sdl() + "!"
	}
	return r.Name
}

type c17Arg struct {
	Name    string  `json:"name"`
	Type    *c17Ref `json:"type"`
	Default *string `json:"default,omitempty"`
	Dep     *string `json:"dep,omitempty"` // deprecation reason (with the default reason applied)
}

type c17Field struct {
	Name string   `json:"name"`
	Args []c17Arg `json:"args"`
	Type *c17Ref  `json:"type"`
	Dep  *string  `json:"dep,omitempty"`
}

type c17EnumVal struct {
	Name string  `json:"name"`
	Dep  *string `json:"dep,omitempty"`
}

type c17Type struct {
	Kind        string       `json:"kind"` // SCALAR OBJECT INTERFACE UNION ENUM INPUT_OBJECT
	Name        string       `json:"name"`
	Fields      []c17Field   `json:"fields"`
	InputFields []c17Arg     `json:"inputFields"`
	Interfaces  []string     `json:"interfaces"`
	Members     []string     `json:"members"`
	EnumValues  []c17EnumVal `json:"enumValues"`
}

type c17Directive struct {
	Name       string   `json:"name"`
	Locations  []string `json:"locations"`
	Args       []c17Arg `json:"args"`
	Repeatable bool     `json:"repeatable"`
}

type c17Schema struct {
	Types        []c17Type      `json:"types"`
	Directives   []c17Directive `json:"directives"`
	Query        string         `json:"query"`
	Mutation     string         `json:"mutation,omitempty"`
	Subscription string         `json:"subscription,omitempty"`
	// how the deprecations are spelled in SDL (no reason argument → default reason)
	bareDep map[string]bool
}

const c17DefaultReason = "No longer supported"

func c17DepSDL(dep *string, bare bool) string {
	if dep == nil {
		return ""
	}
	if bare && *dep == c17DefaultReason {
		return " @deprecated"
	}
	return fmt.Sprintf(" @deprecated(reason: %q)", *dep)
}

func (s *c17Schema) sdl() string {
	var b strings.Builder
	b.WriteString("schema { query: " + s.Query)
	if s.Mutation != "" {
		b.WriteString(" mutation: " + s.Mutation)
	}
	if s.Subscription != "" {
		b.WriteString(" subscription: " + s.Subscription)
	}
	b.WriteString(" }\n")
	args := func(as []c17Arg) string {
		if len(as) == 0 {
			return ""
		}
		parts := []string{}
		for _, a := range as {
			p := a.Name + ": " + a.Type.sdl()
			if a.Default != nil {
				p += " = " + *a.Default
			}
			parts = append(parts, p)
		}
		return "(" + strings.Join(parts, ", ") + ")"
	}
	for _, d := range s.Directives {
		b.WriteString("directive @" + d.Name + args(d.Args))
		if d.Repeatable {
			b.WriteString(" repeatable")
		}
		b.WriteString(" on " + strings.Join(d.Locations, " | ") + "\n")
	}
	for _, t := range s.Types {
		impl := ""
		if len(t.Interfaces) > 0 {
			impl = " implements " + strings.Join(t.Interfaces, " & ")
		}
		switch t.Kind {
		case "SCALAR":
			b.WriteString("scalar " + t.Name + "\n")
		case "OBJECT", "INTERFACE":
			kw := "type"
			if t.Kind == "INTERFACE" {
				kw = "interface"
			}
			b.WriteString(kw + " " + t.Name + impl + " {\n")
			for _, f := range t.Fields {
				b.WriteString("  " + f.Name + args(f.Args) + ": " + f.Type.sdl() + c17DepSDL(f.Dep, s.bareDep[t.Name+"."+f.Name]) + "\n")
			}
			b.WriteString("}\n")
		case "UNION":
			b.WriteString("union " + t.Name + " = " + strings.Join(t.Members, " | ") + "\n")
		case "ENUM":
			b.WriteString("enum " + t.Name + " {\n")
			for _, v := range t.EnumValues {
				b.WriteString("  " + v.Name + c17DepSDL(v.Dep, s.bareDep[t.Name+"."+v.Name]) + "\n")
			}
			b.WriteString("}\n")
		case "INPUT_OBJECT":
			b.WriteString("input " + t.Name + " {\n")
			for _, f := range t.InputFields {
				p := "  " + f.Name + ": " + f.Type.sdl()
				if f.Default != nil {
					p += " = " + *f.Default
				}
				b.WriteString(p + "\n")
			}
			b.WriteString("}\n")
		}
	}
	return b.String()
}

// ---- generator ------------------------------------------------------------------------------------------------

func c17Gen(r *rand.Rand) *c17Schema {
	s := &c17Schema{Query: "Query", bareDep: map[string]bool{}}
	names := func(prefix string, n int) []string {
		out := []string{}
		for i := 0; i < n; i++ {
			out = append(out, fmt.Sprintf("%s%d", prefix, i))
		}
		return out
	}
	objs := names("Obj", 1+r.Intn(3))
	ifaces := names("Iface", r.Intn(3))
	enums := names("Enum", r.Intn(3))
	inputs := names("In", r.Intn(3))
	scalars := names("Scal", r.Intn(2))
	unions := names("Uni", r.Intn(2))
	if r.Intn(2) == 0 {
		s.Mutation = pick(r, []string{"Mutation", "Mut"})
	}
	if r.Intn(3) == 0 {
		s.Subscription = pick(r, []string{"Subscription", "Sub"})
	}
	// an object type that merely has the name a root type has in other schemas, without being a root here
	// (a type with the default name Mutation / Subscription is made a root by the library's base-schema merge even when
	// the schema definition does not list it — a documented normalisation of the configured schema — so only the
	// non-default names are used here)
	if s.Mutation == "" && r.Intn(3) == 0 {
		objs = append(objs, "Mut")
	}
	if s.Subscription == "" && r.Intn(3) == 0 {
		objs = append(objs, "Sub")
	}
	outputLeaf := append(append(append([]string{"String", "Int", "Float", "Boolean", "ID"}, objs...), ifaces...), append(append(enums, scalars...), unions...)...)
	inputLeaf := append(append([]string{"String", "Int", "Float", "Boolean", "ID"}, enums...), append(inputs, scalars...)...)
	var mkRef func(leaves []string, depth int) *c17Ref
	mkRef = func(leaves []string, depth int) *c17Ref {
		switch k := r.Intn(10); {
		case k < 3 && depth < 4:
			return &c17Ref{Kind: "list", Of: mkRef(leaves, depth+1)}
		case k < 5 && depth < 5:
			inner := mkRef(leaves, depth+1)
			if inner.Kind == "nonnull" {
				return inner
			}
			return &c17Ref{Kind: "nonnull", Of: inner}
		}
		return &c17Ref{Kind: "named", Name: pick(r, leaves)}
	}
	enumVals := map[string][]string{}
	var defFor func(t *c17Ref, depth int) string
	defFor = func(t *c17Ref, depth int) string {
		if t.Kind == "nonnull" {
			return defFor(t.Of, depth)
		}
		if r.Intn(8) == 0 {
			return "null"
		}
		if t.Kind == "list" {
			n := r.Intn(3)
			parts := []string{}
			for i := 0; i < n; i++ {
				parts = append(parts, defFor(t.Of, depth+1))
			}
			return "[" + strings.Join(parts, ",") + "]"
		}
		switch t.Name {
		case "String", "ID":
			return pick(r, []string{`"x"`, `""`, `"a b"`, `"q\"uote"`})
		case "Int":
			return pick(r, []string{"0", "5", "-5", "-2147483648"})
		case "Float":
			return pick(r, []string{"1.5", "-0.5", "-1e3", "2"})
		case "Boolean":
			return pick(r, []string{"true", "false"})
		}
		if vs, ok := enumVals[t.Name]; ok {
			return pick(r, vs)
		}
		if strings.HasPrefix(t.Name, "In") {
			return "{}"
		}
		return `"scalar"`
	}
	dep := func(key string) *string {
		switch r.Intn(6) {
		case 0:
			s.bareDep[key] = true
			d := c17DefaultReason
			return &d
		case 1:
			d := pick(r, []string{"use other", "gone in v2", "x", "Reason, with: punctuation!", "Reason with \"quotes\""})
			d += " " + key
			return &d
		}
		return nil
	}
	mkArgs := func(owner string, n int) []c17Arg {
		out := []c17Arg{}
		for i := 0; i < n; i++ {
			a := c17Arg{Name: fmt.Sprintf("arg%d", i), Type: mkRef(inputLeaf, 0)}
			if r.Intn(2) == 0 {
				d := defFor(a.Type, 0)
				if !(d == "null" && a.Type.Kind == "nonnull") {
					a.Default = &d
				}
			}
			out = append(out, a)
		}
		return out
	}
	for _, e := range enums {
		t := c17Type{Kind: "ENUM", Name: e}
		n := 1 + r.Intn(4)
		for i := 0; i < n; i++ {
			v := fmt.Sprintf("%s_V%d", strings.ToUpper(e), i)
			t.EnumValues = append(t.EnumValues, c17EnumVal{Name: v, Dep: dep(e + "." + v)})
			enumVals[e] = append(enumVals[e], v)
		}
		s.Types = append(s.Types, t)
	}
	for _, sc := range scalars {
		s.Types = append(s.Types, c17Type{Kind: "SCALAR", Name: sc})
	}
	mkFields := func(owner string, n int) []c17Field {
		out := []c17Field{}
		for i := 0; i < n; i++ {
			f := c17Field{Name: fmt.Sprintf("f%d", i), Type: mkRef(outputLeaf, 0), Args: mkArgs(owner, r.Intn(3))}
			f.Dep = dep(owner + "." + f.Name)
			out = append(out, f)
		}
		return out
	}
	ifaceFields := map[string][]c17Field{}
	ifaceParents := map[string][]string{}
	for k, i := range ifaces {
		t := c17Type{Kind: "INTERFACE", Name: i}
		// an interface may implement earlier interfaces (and then repeats their fields)
		if k > 0 && r.Intn(2) == 0 {
			p := ifaces[r.Intn(k)]
			t.Interfaces = append(append([]string{}, ifaceParents[p]...), p)
			t.Fields = append(t.Fields, ifaceFields[p]...)
		}
		own := mkFields(i, 1+r.Intn(2))
		for j := range own {
			own[j].Name = fmt.Sprintf("%s_%s", strings.ToLower(i), own[j].Name)
			own[j].Dep = nil
		}
		t.Fields = append(t.Fields, own...)
		ifaceFields[i] = t.Fields
		ifaceParents[i] = t.Interfaces
		s.Types = append(s.Types, t)
	}
	roots := []string{"Query"}
	if s.Mutation != "" {
		roots = append(roots, s.Mutation)
	}
	if s.Subscription != "" {
		roots = append(roots, s.Subscription)
	}
	for _, o := range append(roots, objs...) {
		t := c17Type{Kind: "OBJECT", Name: o}
		if len(ifaces) > 0 && r.Intn(2) == 0 && !containsStr(roots, o) {
			p := pick(r, ifaces)
			t.Interfaces = append(append([]string{}, ifaceParents[p]...), p)
			t.Fields = append(t.Fields, ifaceFields[p]...)
		}
		t.Fields = append(t.Fields, mkFields(o, 1+r.Intn(3))...)
		s.Types = append(s.Types, t)
	}
	for _, u := range unions {
		t := c17Type{Kind: "UNION", Name: u}
		n := 1 + r.Intn(len(objs))
		perm := r.Perm(len(objs))
		for _, k := range perm[:n] {
			t.Members = append(t.Members, objs[k])
		}
		s.Types = append(s.Types, t)
	}
	for _, in := range inputs {
		t := c17Type{Kind: "INPUT_OBJECT", Name: in}
		t.InputFields = mkArgs(in, 1+r.Intn(3))
		for j := range t.InputFields {
			t.InputFields[j].Name = fmt.Sprintf("in%d", j)
		}
		s.Types = append(s.Types, t)
	}
	for i := r.Intn(3); i > 0; i-- {
		d := c17Directive{Name: fmt.Sprintf("dir%d", i), Repeatable: r.Intn(3) == 0, Args: mkArgs("@", r.Intn(3))}
		locs := []string{"FIELD_DEFINITION", "OBJECT", "FIELD", "QUERY", "ARGUMENT_DEFINITION", "ENUM_VALUE", "INPUT_FIELD_DEFINITION", "INTERFACE", "UNION", "SCALAR", "ENUM", "INPUT_OBJECT", "SCHEMA", "FRAGMENT_SPREAD", "INLINE_FRAGMENT", "MUTATION", "SUBSCRIPTION", "FRAGMENT_DEFINITION", "VARIABLE_DEFINITION"}
		n := 1 + r.Intn(3)
		perm := r.Perm(len(locs))
		for _, k := range perm[:n] {
			d.Locations = append(d.Locations, locs[k])
		}
		s.Directives = append(s.Directives, d)
	}
	r.Shuffle(len(s.Types), func(i, j int) { s.Types[i], s.Types[j] = s.Types[j], s.Types[i] })
	return s
}

// ---- facts from the implementation's introspection JSON ------------------------------------------------------

var c17Builtin = map[string]bool{"String": true, "Int": true, "Float": true, "Boolean": true, "ID": true}
var c17BuiltinDirectives = map[string]bool{"include": true, "skip": true, "deprecated": true, "specifiedBy": true, "defer": true, "oneOf": true, "stream": true}

type c17JRef struct {
	Kind   string   `json:"kind"`
	Name   *string  `json:"name"`
	OfType *c17JRef `json:"ofType"`
}

func (r *c17JRef) str() string {
	if r == nil {
		return "<nil>"
	}
	switch r.Kind {
	case "NON_NULL":
		return r.OfType.str() + "!"
	case "LIST":
		return "[" + r.OfType.str() + "]"
	}
	n := "<noname>"
	if r.Name != nil {
		n = *r.Name
	}
	return n + ":" + r.Kind
}

type c17JInput struct {
	Name         string   `json:"name"`
	Type         *c17JRef `json:"type"`
	DefaultValue *string  `json:"defaultValue"`
}

type c17JType struct {
	Kind   string `json:"kind"`
	Name   string `json:"name"`
	Fields []struct {
		Name              string      `json:"name"`
		Args              []c17JInput `json:"args"`
		Type              *c17JRef    `json:"type"`
		IsDeprecated      bool        `json:"isDeprecated"`
		DeprecationReason *string     `json:"deprecationReason"`
	} `json:"fields"`
	InputFields []c17JInput `json:"inputFields"`
	Interfaces  []c17JRef   `json:"interfaces"`
	EnumValues  []struct {
		Name              string  `json:"name"`
		IsDeprecated      bool    `json:"isDeprecated"`
		DeprecationReason *string `json:"deprecationReason"`
	} `json:"enumValues"`
	PossibleTypes []c17JRef `json:"possibleTypes"`
}

type c17JSchema struct {
	QueryType        *struct{ Name string } `json:"queryType"`
	MutationType     *struct{ Name string } `json:"mutationType"`
	SubscriptionType *struct{ Name string } `json:"subscriptionType"`
	Types            []c17JType             `json:"types"`
	Directives       []struct {
		Name         string      `json:"name"`
		Locations    []string    `json:"locations"`
		Args         []c17JInput `json:"args"`
		IsRepeatable bool        `json:"isRepeatable"`
	} `json:"directives"`
}

func c17Opt(p *string) string {
	if p == nil {
		return "-"
	}
	return *p
}

func c17FactsOfJSON(b []byte) ([]string, error) {
	var d struct {
		Schema c17JSchema `json:"__schema"`
	}
	if err := json.Unmarshal(b, &d); err != nil {
		return nil, err
	}
	s := d.Schema
	var out []string
	if s.QueryType != nil {
		out = append(out, "R|query|"+s.QueryType.Name)
	}
	if s.MutationType != nil {
		out = append(out, "R|mutation|"+s.MutationType.Name)
	}
	if s.SubscriptionType != nil {
		out = append(out, "R|subscription|"+s.SubscriptionType.Name)
	}
	depStr := func(is bool, reason *string) string {
		if !is {
			if reason != nil {
				return "dep:<reason without isDeprecated>"
			}
			return "dep:-"
		}
		return "dep:" + c17Opt(reason)
	}
	for _, t := range s.Types {
		if c17Builtin[t.Name] || strings.HasPrefix(t.Name, "__") {
			continue
		}
		out = append(out, "T|"+t.Name+"|"+t.Kind)
		for _, f := range t.Fields {
			if strings.HasPrefix(f.Name, "__") {
				continue
			}
			out = append(out, fmt.Sprintf("F|%s.%s|%s|%s", t.Name, f.Name, f.Type.str(), depStr(f.IsDeprecated, f.DeprecationReason)))
			for _, a := range f.Args {
				out = append(out, fmt.Sprintf("A|%s.%s(%s)|%s|def:%s", t.Name, f.Name, a.Name, a.Type.str(), c17Opt(a.DefaultValue)))
			}
		}
		for _, f := range t.InputFields {
			out = append(out, fmt.Sprintf("I|%s.%s|%s|def:%s", t.Name, f.Name, f.Type.str(), c17Opt(f.DefaultValue)))
		}
		for _, v := range t.EnumValues {
			out = append(out, fmt.Sprintf("E|%s.%s|%s", t.Name, v.Name, depStr(v.IsDeprecated, v.DeprecationReason)))
		}
		for _, i := range t.Interfaces {
			out = append(out, "IF|"+t.Name+"->"+i.str())
		}
		for _, p := range t.PossibleTypes {
			out = append(out, "PT|"+t.Name+"->"+p.str())
		}
	}
	for _, dct := range s.Directives {
		if c17BuiltinDirectives[dct.Name] {
			continue
		}
		locs := append([]string{}, dct.Locations...)
		sort.Strings(locs)
		out = append(out, fmt.Sprintf("D|@%s|%s|rep:%v", dct.Name, strings.Join(locs, ","), dct.IsRepeatable))
		for _, a := range dct.Args {
			out = append(out, fmt.Sprintf("DA|@%s(%s)|%s|def:%s", dct.Name, a.Name, a.Type.str(), c17Opt(a.DefaultValue)))
		}
	}
	sort.Strings(out)
	return out, nil
}

const c17IntrospectionQuery = `query IntrospectionQuery { __schema { queryType { name } mutationType { name } subscriptionType { name }
 types { ...FullType } directives { name locations isRepeatable args { ...InputValue } } } }
fragment FullType on __Type { kind name fields(includeDeprecated: true) { name args { ...InputValue } type { ...TypeRef } isDeprecated deprecationReason }
 inputFields { ...InputValue } interfaces { ...TypeRef } enumValues(includeDeprecated: true) { name isDeprecated deprecationReason } possibleTypes { ...TypeRef } }
fragment InputValue on __InputValue { name type { ...TypeRef } defaultValue }
fragment TypeRef on __Type { kind name ofType { kind name ofType { kind name ofType { kind name ofType { kind name ofType { kind name ofType { kind name ofType { kind name } } } } } } } }`

func c17Diff(a, b []string) string {
	ma, mb := map[string]bool{}, map[string]bool{}
	for _, x := range a {
		ma[x] = true
	}
	for _, x := range b {
		mb[x] = true
	}
	var only1, only2 []string
	for _, x := range a {
		if !mb[x] {
			only1 = append(only1, x)
		}
	}
	for _, x := range b {
		if !ma[x] {
			only2 = append(only2, x)
		}
	}
	return fmt.Sprintf("only left: %v | only right: %v", truncate(fmt.Sprint(only1), 600), truncate(fmt.Sprint(only2), 600))
}

func c17Check(run *Run, s *c17Schema, prev *c17Schema) {
	sdl := s.sdl()
	in := map[string]any{"sdl": sdl, "schema": s}
	if prev != nil {
		in["previous_schema"] = prev // an engine for this schema is built first (history)
	}
	defer func() {
		if p := recover(); p != nil {
			run.Violate(Violation{Kind: "oracle", Clause: "no_panic", Input: in, Detail: fmt.Sprint(p)}, "")
		}
	}()
	schema, err := graphql.NewSchemaFromString(sdl)
	if err != nil {
		run.Violate(Violation{Kind: "oracle", Clause: "schema_parses", Input: in, Detail: err.Error()}, "")
		return
	}
	// the model's facts
	raw, err := run.Pool.Ask("c17.facts", map[string]any{"schema": s})
	if err != nil {
		run.Violate(Violation{Kind: "correspondence", Clause: "driver", Input: in, Detail: err.Error()}, "")
		return
	}
	var m struct {
		Facts     []string `json:"facts"`
		Roundtrip bool     `json:"roundtrip"`
		WF        bool     `json:"wf"`
	}
	_ = json.Unmarshal(raw, &m)
	sort.Strings(m.Facts)
	if m.WF && !m.Roundtrip {
		run.Violate(Violation{Kind: "theorem", Clause: "roundtrip", Input: in, Detail: "convert (generate S) ≠ S on a well-formed schema: theorem instance fails"}, "")
	}
	// (G) the generator
	var data introspection.Data
	var rep operationreport.Report
	introspection.NewGenerator().Generate(schema.Document(), &rep, &data)
	if rep.HasErrors() {
		run.Violate(Violation{Kind: "oracle", Clause: "generator_total", Input: in, Detail: rep.Error()}, "")
		return
	}
	gjson, _ := json.Marshal(data)
	gfacts, err := c17FactsOfJSON(gjson)
	if err != nil {
		run.Violate(Violation{Kind: "oracle", Clause: "generator_json", Input: in, Detail: err.Error()}, "")
		return
	}
	if strings.Join(gfacts, "\n") != strings.Join(m.Facts, "\n") {
		known := ""
		// the disagreement judged against the ground truth (the structure the SDL was printed from)
		if ground := c17GroundFacts(s); known == "" && strings.Join(gfacts, "\n") != strings.Join(ground, "\n") {
			run.Violate(Violation{Kind: "oracle", Clause: "introspection_lists_exactly_the_schema", Input: in,
				Detail: "left = generator, right = the generated schema itself: " + c17Diff(gfacts, ground)}, "")
		} else {
			run.Violate(Violation{Kind: "correspondence", Clause: "generator_exact", Input: in, Detail: "left = generator, right = model: " + c17Diff(gfacts, m.Facts)}, known)
		}
	}
	if ground := c17GroundFacts(s); strings.Join(ground, "\n") != strings.Join(m.Facts, "\n") {
		run.Violate(Violation{Kind: "correspondence", Clause: "model_lists_the_generated_schema", Input: in,
			Detail: "left = the generated schema itself, right = model: " + c17Diff(ground, m.Facts)}, "")
	}
	// (R) converter round trip: the document built from the introspection JSON introspects the same
	conv := introspection.JsonConverter{}
	doc, err := conv.GraphQLDocument(bytes.NewReader(gjson))
	if err != nil {
		run.Violate(Violation{Kind: "oracle", Clause: "converter_total", Input: in, Detail: err.Error()}, "")
	} else {
		printed, _ := astprinter.PrintString(doc)
		schema2, err := graphql.NewSchemaFromString(printed)
		if err != nil {
			run.Violate(Violation{Kind: "oracle", Clause: "converted_sdl_parses", Input: in, Impl: printed, Detail: err.Error()}, "")
		} else {
			var data2 introspection.Data
			var rep2 operationreport.Report
			introspection.NewGenerator().Generate(schema2.Document(), &rep2, &data2)
			j2, _ := json.Marshal(data2)
			f2, _ := c17FactsOfJSON(j2)
			if strings.Join(f2, "\n") != strings.Join(gfacts, "\n") {
				run.Violate(Violation{Kind: "oracle", Clause: "roundtrip", Input: in, Impl: printed,
					Detail: "left = original, right = after JSON → document → SDL: " + c17Diff(gfacts, f2)}, "")
			}
		}
	}
	// (E) the engine, after an engine for another schema was built
	if prev != nil {
		if ps, err := graphql.NewSchemaFromString(prev.sdl()); err == nil {
			_, _ = engine.NewExecutionEngine(context.Background(), abstractlogger.NoopLogger, engine.NewConfiguration(ps), resolve.ResolverOptions{MaxConcurrency: 4})
		}
	}
	eng, err := engine.NewExecutionEngine(context.Background(), abstractlogger.NoopLogger, engine.NewConfiguration(schema), resolve.ResolverOptions{MaxConcurrency: 4})
	if err != nil {
		run.Violate(Violation{Kind: "oracle", Clause: "engine_builds", Input: in, Detail: err.Error()}, "")
		return
	}
	req := &graphql.Request{Query: c17IntrospectionQuery, OperationName: "IntrospectionQuery"}
	w := graphql.NewEngineResultWriter()
	if err := eng.Execute(context.Background(), req, &w); err != nil {
		run.Violate(Violation{Kind: "oracle", Clause: "engine_answers", Input: in, Detail: err.Error()}, "")
		return
	}
	var resp struct {
		Data   json.RawMessage `json:"data"`
		Errors json.RawMessage `json:"errors"`
	}
	_ = json.Unmarshal(w.Bytes(), &resp)
	if len(resp.Errors) > 0 {
		run.Violate(Violation{Kind: "oracle", Clause: "engine_answers", Input: in, Detail: "errors: " + truncate(string(resp.Errors), 500)}, "")
		return
	}
	efacts, err := c17FactsOfJSON(resp.Data)
	if err != nil {
		run.Violate(Violation{Kind: "oracle", Clause: "engine_answers", Input: in, Detail: err.Error()}, "")
		return
	}
	if strings.Join(efacts, "\n") != strings.Join(m.Facts, "\n") {
		known := ""
		if ground := c17GroundFacts(s); known == "" && strings.Join(efacts, "\n") != strings.Join(ground, "\n") {
			run.Violate(Violation{Kind: "oracle", Clause: "engine_introspection_lists_exactly_the_schema", Input: in,
				Detail: "left = engine answer, right = the generated schema itself: " + c17Diff(efacts, ground)}, "")
		} else {
			run.Violate(Violation{Kind: "correspondence", Clause: "engine_exact", Input: in, Detail: "left = engine answer, right = model: " + c17Diff(efacts, m.Facts)}, known)
		}
	}
}

func runC17(run *Run, replay string) Spec {
	spec := Spec{
		Level: "proof",
		Rule: "generated schemas (objects, interfaces implementing interfaces, unions, enums with deprecations incl. the default reason, input objects / arguments / directive arguments with defaults of every kind incl. negative numbers, nested lists, null, custom scalars, custom directives with locations and repeatable, optional mutation / subscription roots): " +
			"(G) introspection.Generator vs the Lean model as sorted fact lists (type references with nesting and leaf kinds); (R) JsonConverter round trip through printed SDL; (E) the execution engine's answer to the full introspection query, after an engine for a different schema was built. non-trivial = every case; distinct = distinct SDL",
		TrustedBase: []string{"Lean 4 kernel", "axioms: propext, Classical.choice, Quot.sound only (audited)",
			"Lean model GqlVerif.Misc.Introspection (generate, convert) and the fact rendering in the driver", "the harness' SDL printer of structured schemas and its fact extraction from introspection JSON"},
		Assumptions: []string{"descriptions and specifiedByURL are not generated; built-in scalars and directives are filtered from the comparison"},
	}
	if replay != "" {
		if b, err := os.ReadFile(replay); err == nil {
			var f struct {
				Violation struct {
					Input struct {
						Schema *c17Schema `json:"schema"`
						Prev   *c17Schema `json:"previous_schema"`
					} `json:"input"`
				} `json:"violation"`
			}
			if json.Unmarshal(b, &f) == nil && f.Violation.Input.Schema != nil {
				f.Violation.Input.Schema.bareDep = map[string]bool{}
				if f.Violation.Input.Prev != nil {
					f.Violation.Input.Prev.bareDep = map[string]bool{}
				}
				c17Check(run, f.Violation.Input.Schema, f.Violation.Input.Prev)
				run.Count("replay")
			}
		}
		return spec
	}
	n := 400
	if run.Tier == "thorough" {
		n = 20000
	}
	parallelFor(n, 12, func(k int) {
		if run.NViolations() >= 6 {
			return
		}
		r := subRng(run.Seed, k)
		var prev *c17Schema
		if k%3 == 0 {
			prev = c17Gen(r)
		}
		s := c17Gen(r)
		c17Check(run, s, prev)
		run.Count(s.sdl())
		for _, t := range s.Types {
			run.Feat("kind:" + t.Kind)
		}
		if k < 2 {
			run.Sample(map[string]any{"sdl": s.sdl()})
		}
	})
	return spec
}
