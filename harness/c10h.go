package main

// C10, a deferred group that fails hard: a pre-fetch rate limiter returns an error (not a denial) for every request to
// one subgraph, so the fetch phase of a group (or of the initial response) returns an error instead of a subgraph error.
// What the data then is depends on which requests the plan makes; what is judged is the stream discipline alone: the
// stream ends, the writer is never entered by two goroutines at once (render and flush of one group are one critical
// section), nothing is written after Complete, nothing stays unflushed, every frame is one JSON object.

import (
	"encoding/json"
	"errors"
	"fmt"
	"io"
	"time"

	"github.com/wundergraph/graphql-go-tools/execution/engine"
	"github.com/wundergraph/graphql-go-tools/v2/pkg/engine/resolve"
)

type c10HardLimiter struct{ sub string }

func (l *c10HardLimiter) RateLimitPreFetch(_ *resolve.Context, info *resolve.FetchInfo, _ json.RawMessage) (*resolve.RateLimitDeny, error) {
	if info != nil && (info.DataSourceID == l.sub || info.DataSourceName == l.sub) {
		return nil, errors.New("rate limiter unavailable")
	}
	return nil, nil
}
func (l *c10HardLimiter) RenderResponseExtension(_ *resolve.Context, _ io.Writer) error { return nil }

func c10CheckHardFailure(run *Run, c *c10Case, e *fedEngine, mkSession func() *fedSession) {
	for k, seed := range c.OrderSeeds {
		sess := mkSession()
		sess.gate = c10Gate(seed, 3)
		lim := &c10HardLimiter{sub: c.HardFail}
		st := e.runStreamOpts(sess, c.Operation, "Q", c.Variables, 300*time.Microsecond, engine.WithVerifResolveContext(func(ctx *resolve.Context) {
			ctx.RateLimitOptions = resolve.RateLimitOptions{Enable: true}
			ctx.SetRateLimiter(lim)
		}))
		in2 := map[string]any{"case": c, "orderSeed": seed, "stream": "hard_failure"}
		run.Feat("hard_failure_runs")
		if st.TimedOut {
			run.Violate(Violation{Kind: "oracle", Clause: "terminates", Input: in2, Impl: st.Frames, Detail: "with a hard fetch failure the deferred stream did not end within 20 s"}, "")
			return
		}
		if st.Err != nil {
			run.Feat("hard_failure_fails_the_request")
		}
		if len(st.Frames) > 1 {
			run.Feat("hard_failure_incremental_stream")
		}
		if st.Overlap {
			run.Violate(Violation{Kind: "oracle", Clause: "frames_not_interleaved", Input: in2, Impl: st.Frames, Detail: "two goroutines were inside the writer at the same time (hard failure of subgraph " + c.HardFail + ")"}, "")
			return
		}
		if st.AfterDone {
			run.Violate(Violation{Kind: "oracle", Clause: "nothing_after_complete", Input: in2, Impl: st.Frames, Detail: "the writer was written to or flushed after Complete()"}, "")
			return
		}
		if st.Err == nil && st.Rest != "" {
			run.Violate(Violation{Kind: "oracle", Clause: "everything_flushed", Input: in2, Impl: st.Rest, Detail: "bytes were written but never flushed: " + truncate(st.Rest, 300)}, "")
			return
		}
		for i, f := range st.Frames {
			var obj map[string]json.RawMessage
			if len(f) >= 7 && f[:7] == "<error>" {
				continue
			}
			if err := json.Unmarshal([]byte(f), &obj); err != nil {
				run.Violate(Violation{Kind: "oracle", Clause: "frames_not_interleaved", Input: in2, Impl: st.Frames, Detail: fmt.Sprintf("frame %d is not one JSON object: %s", i, truncate(f, 400))}, "")
				return
			}
		}
		_ = k
	}
}
