package main

// C09 — planning is deterministic; plan caching, variable renaming and plan optimisations are transparent.
//
// Histories of requests over one universe (repeated operations, the same text with other variable values — in
// particular flipped @skip/@include booleans — and consistently renamed variables) are served by ONE engine per
// option set (plain, multi-fetch, scheduled fetches, both).  Every response must equal the response a fresh plain
// engine gives to that request alone; two fresh engines must send the same subgraph requests for the same request
// (planning is deterministic across planner instances); and under a subgraph fault the option sets must still agree
// on the whole response, errors included.

import (
	"encoding/json"
	"fmt"
	"math/rand"
	"os"
	"regexp"
	"sort"
	"strings"
	"sync"

	"github.com/wundergraph/graphql-go-tools/execution/engine"
)

func init() { props["C09"] = runC09 }

type c09Request struct {
	Operation string `json:"operation"`
	Variables string `json:"variables"`
	Note      string `json:"note,omitempty"`
}

type c09History struct {
	Layout   string       `json:"layout"`
	Universe *fedUniverse `json:"universe"`
	Requests []c09Request `json:"requests"`
}

var c09OptionSets = []struct {
	name string
	opts fedEngineOpts
}{
	{"plain", fedEngineOpts{}},
	{"multi", fedEngineOpts{customize: func(c *engine.Configuration) { c.EnableMultiFetch() }}},
	{"sched", fedEngineOpts{customize: func(c *engine.Configuration) { c.EnableScheduleFetches() }}},
	{"multi+sched", fedEngineOpts{customize: func(c *engine.Configuration) { c.EnableMultiFetch(); c.EnableScheduleFetches() }}},
}

var c09VarRe = regexp.MustCompile(`\$v(\d+)`)

func c09Rename(req c09Request) c09Request {
	out := c09Request{Note: "renamed variables"}
	out.Operation = c09VarRe.ReplaceAllString(req.Operation, `$$renamed_$1`)
	var vars map[string]json.RawMessage
	_ = json.Unmarshal([]byte(req.Variables), &vars)
	nv := map[string]json.RawMessage{}
	for k, v := range vars {
		if strings.HasPrefix(k, "v") {
			nv["renamed_"+k[1:]] = v
		} else {
			nv[k] = v
		}
	}
	b, _ := json.Marshal(nv)
	out.Variables = string(b)
	return out
}

func c09FlipBooleans(req c09Request) (c09Request, bool) {
	var vars map[string]any
	_ = json.Unmarshal([]byte(req.Variables), &vars)
	flipped := false
	for k, v := range vars {
		if b, ok := v.(bool); ok {
			vars[k] = !b
			flipped = true
		}
	}
	b, _ := json.Marshal(vars)
	return c09Request{Operation: req.Operation, Variables: string(b), Note: "same text, flipped booleans"}, flipped
}

func c09GenHistory(r *rand.Rand, l *fedLayout) *c09History {
	u := fedL1Universe(r)
	h := &c09History{Layout: l.Name, Universe: u}
	var base []c09Request
	for i := 0; i < 2+r.Intn(2); i++ {
		op, vars, _ := fedGenOperation(r, l.super, u)
		base = append(base, c09Request{Operation: op, Variables: string(vars)})
	}
	h.Requests = append(h.Requests, base...)
	for _, b := range base {
		switch r.Intn(4) {
		case 0:
			rep := b
			rep.Note = "repeated"
			h.Requests = append(h.Requests, rep)
		case 1:
			h.Requests = append(h.Requests, c09Rename(b))
		default:
			if f, ok := c09FlipBooleans(b); ok {
				h.Requests = append(h.Requests, f)
				if r.Intn(2) == 0 {
					rep := b
					rep.Note = "original again"
					h.Requests = append(h.Requests, rep)
				}
			} else {
				h.Requests = append(h.Requests, c09Rename(b))
			}
		}
	}
	r.Shuffle(len(h.Requests)-len(base), func(i, j int) {
		i, j = i+len(base), j+len(base)
		h.Requests[i], h.Requests[j] = h.Requests[j], h.Requests[i]
	})
	return h
}

// the distinct subgraph requests of an execution: the loader coalesces identical requests of one execution that are in flight at the
// same time (subgraph request deduplication), so how often an identical request is sent depends on timing, not on the plan
func c09LogKey(log []fedExchange) string {
	var keys []string
	seen := map[string]bool{}
	for _, ex := range log {
		var v any
		_ = json.Unmarshal(ex.Variables, &v)
		b, _ := json.Marshal(v)
		k := ex.Subgraph + "|" + ex.Query + "|" + string(b)
		if !seen[k] {
			seen[k] = true
			keys = append(keys, k)
		}
	}
	sort.Strings(keys)
	return strings.Join(keys, "\n")
}

func c09Check(run *Run, h *c09History, r *rand.Rand) {
	layouts, err := fedGetLayouts()
	if err != nil {
		run.Violate(Violation{Kind: "oracle", Clause: "layout_builds", Detail: err.Error()}, "")
		return
	}
	l := layouts[h.Layout]
	in := map[string]any{"history": h}
	// one long-lived engine per option set
	engines := make([]*fedEngine, len(c09OptionSets))
	for i, os := range c09OptionSets {
		e, err := fedNewEngine(l, os.opts)
		if err != nil {
			run.Violate(Violation{Kind: "oracle", Clause: "engine_builds", Input: in, Detail: os.name + ": " + err.Error()}, "")
			return
		}
		defer e.cancel()
		engines[i] = e
	}
	// an optional fault that hits the same requests in every engine: by (subgraph, entity type) of the request
	var faultSub string
	if r.Intn(4) == 0 {
		faultSub = pick(r, []string{"inventory", "geo", "hr", "reviews", "shipping"})
	}
	mkSession := func() *fedSession {
		s := &fedSession{layout: l, universe: h.Universe, pool: run.Pool}
		if faultSub != "" {
			s.fault = func(sub, query string, vars []byte, seq int) *fedFault {
				if sub == faultSub {
					return &fedFault{Kind: "status503DataNull"}
				}
				return nil
			}
		}
		return s
	}
	for k, req := range h.Requests {
		fresh, err := fedNewEngine(l, fedEngineOpts{})
		if err != nil {
			return
		}
		base := fresh.run(mkSession(), req.Operation, "Q", []byte(req.Variables))
		fresh.cancel()
		if base.Err != nil {
			continue
		}
		if k == 0 {
			// planning is deterministic across planner instances
			fresh2, err := fedNewEngine(l, fedEngineOpts{})
			if err == nil {
				again := fresh2.run(mkSession(), req.Operation, "Q", []byte(req.Variables))
				fresh2.cancel()
				if c09LogKey(again.Log) != c09LogKey(base.Log) {
					run.Violate(Violation{Kind: "oracle", Clause: "planning_deterministic", Input: in, Impl: again.Log, Model: base.Log,
						Detail: fmt.Sprintf("two fresh engines sent different subgraph requests for request %d", k)}, "")
				}
			}
		}
		for i, os := range c09OptionSets {
			got := engines[i].run(mkSession(), req.Operation, "Q", []byte(req.Variables))
			if got.Err != nil {
				run.Violate(Violation{Kind: "oracle", Clause: "transparent:" + os.name, Input: in, Detail: fmt.Sprintf("request %d (%s) failed on the shared %s engine: %v", k, req.Note, os.name, got.Err)}, "")
				continue
			}
			same := fedJSONEqual(got.Data, base.Data)
			if same && faultSub == "" {
				same = (len(got.Errors) == 0) == (len(base.Errors) == 0)
			}
			if same && faultSub != "" {
				same = c09ErrorsKey(got.Errors) == c09ErrorsKey(base.Errors)
			}
			if !same {
				known := ""
				if faultSub != "" && strings.HasPrefix(os.name, "multi") && !fedJSONEqual(got.Data, base.Data) && (c07Nulled(base.Data, got.Data) || c07Nulled(got.Data, base.Data)) {
					// a merged request shares the fate of all of its parts (known finding): either the merged fetch failed as a
					// whole but its dependents ran (the plain engine nulls more), or it is skipped as a whole because one part
					// depends on a failed fetch (the multi-fetch engine nulls more)
					known = "C09-multifetch-runs-dependents-after-failed-merged-fetch"
				}
				run.Violate(Violation{Kind: "oracle", Clause: "transparent:" + os.name, Input: in, Impl: got.Raw, Model: base.Raw,
					Detail: fmt.Sprintf("request %d (%s) on the shared %s engine: %s; a fresh plain engine answers %s", k, req.Note, os.name, truncate(got.Raw, 700), truncate(base.Raw, 700))}, known)
			}
		}
		run.mu.Lock()
		run.TracesVsImpl++
		run.mu.Unlock()
		run.Feat("req:" + map[bool]string{true: "base", false: req.Note}[req.Note == ""])
	}
	if faultSub != "" {
		run.Feat("with_fault")
	}
}

// the messages of the reported errors, as a sorted set (paths can legitimately differ between merged and unmerged fetches)
func c09ErrorsKey(errs []any) string {
	var msgs []string
	for _, e := range errs {
		if m, ok := e.(map[string]any); ok {
			msg, _ := m["message"].(string)
			// the position inside a list is plan dependent: keep the reason only
			if i := strings.Index(msg, " at Path "); i >= 0 {
				rest := msg[i:]
				if j := strings.Index(rest, ", Reason:"); j >= 0 {
					msg = msg[:i] + rest[j:]
				} else {
					msg = msg[:i]
				}
			}
			msgs = append(msgs, msg)
		}
	}
	sort.Strings(msgs)
	uniq := msgs[:0]
	for i, m := range msgs {
		if i == 0 || m != msgs[i-1] {
			uniq = append(uniq, m)
		}
	}
	return strings.Join(uniq, "\n")
}

func runC09(run *Run, replay string) Spec {
	spec := Spec{
		Level:       "translation_validation",
		Rule:        "histories of 4–8 requests over one universe (generated operations, repetitions, the same text with flipped @skip/@include booleans, consistently renamed variables) on one shared engine per option set {plain, multi-fetch, scheduled fetches, both}: each response equals the response of a fresh plain engine to that request alone (data; errors iff; under an injected 503/data:null fault also the same error reasons); two fresh engines send the same subgraph requests. non-trivial = every history; distinct = distinct histories",
		TrustedBase: []string{"the engine itself as its own reference (a fresh plain engine per request)", "the harness' semantic subgraphs (C01) and history generator"},
		Assumptions: []string{"subgraph-operation minification and single-fetch de-duplication cannot be switched through the execution engine's public configuration and are not toggled", "error paths are not compared across option sets, only data, error presence and error reasons"},
	}
	layouts, err := fedGetLayouts()
	if err != nil {
		run.Violate(Violation{Kind: "oracle", Clause: "layout_builds", Detail: err.Error()}, "")
		return spec
	}
	if replay != "" {
		if b, err := os.ReadFile(replay); err == nil {
			var f struct {
				Violation struct {
					Input struct {
						History *c09History `json:"history"`
					} `json:"input"`
				} `json:"violation"`
			}
			var raw struct {
				Violation struct {
					Input json.RawMessage `json:"input"`
				} `json:"violation"`
			}
			if json.Unmarshal(b, &raw) == nil && c09MinifyReplay(run, layouts["L1"], raw.Violation.Input) {
				return spec
			}
			if json.Unmarshal(b, &f) == nil && f.Violation.Input.History != nil {
				for k := 0; k < 8; k++ {
					c09Check(run, f.Violation.Input.History, rand.New(rand.NewSource(int64(k))))
				}
				run.Count("replay")
			}
		}
		return spec
	}
	n := 120
	if run.Tier == "thorough" {
		n = 4000
	}
	var wg sync.WaitGroup
	ch := make(chan int, 64)
	for w := 0; w < 8; w++ {
		wg.Add(1)
		go func() {
			defer wg.Done()
			for k := range ch {
				if run.NViolations() >= 6 {
					continue
				}
				r := subRng(run.Seed, k)
				h := c09GenHistory(r, layouts["L1"])
				c09Check(run, h, r)
				run.Count(jsonStr(h.Requests) + fmt.Sprint(k))
				for m := 0; m < 10; m++ {
					c09MinifyCheck(run, subRng(run.Seed, 1_500_000_000+k*10+m), layouts["L1"])
				}
			}
		}()
	}
	for k := 0; k < n; k++ {
		ch <- k
	}
	close(ch)
	wg.Wait()
	return spec
}
