module verif/harness

go 1.25.0

require (
	github.com/wundergraph/graphql-go-tools/execution v0.0.0
	github.com/wundergraph/graphql-go-tools/v2 v2.0.0
)

replace github.com/wundergraph/graphql-go-tools/v2 => /repo/v2

replace github.com/wundergraph/graphql-go-tools/execution => /repo/execution

replace github.com/tidwall/sjson => github.com/tidwall/sjson v1.0.4
