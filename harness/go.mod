module verif/harness

go 1.25.0

require (
	github.com/cespare/xxhash/v2 v2.3.0
	github.com/coder/websocket v1.8.14
	github.com/gobwas/ws v1.4.0
	github.com/jensneuse/abstractlogger v0.0.4
	github.com/wundergraph/astjson v1.1.0
	github.com/wundergraph/graphql-go-tools/execution v0.0.0
	github.com/wundergraph/graphql-go-tools/v2 v2.4.4
	google.golang.org/grpc v1.80.0
)

require (
	connectrpc.com/connect v1.19.2 // indirect
	github.com/bufbuild/protocompile v0.14.1 // indirect
	github.com/buger/jsonparser v1.1.2 // indirect
	github.com/davecgh/go-spew v1.1.2-0.20180830191138-d8f796af33cc // indirect
	github.com/gobwas/httphead v0.1.0 // indirect
	github.com/gobwas/pool v0.2.1 // indirect
	github.com/google/uuid v1.6.0 // indirect
	github.com/hashicorp/golang-lru v0.5.4 // indirect
	github.com/jensneuse/byte-template v0.0.0-20231025215717-69252eb3ed56 // indirect
	github.com/kingledion/go-tools v0.6.0 // indirect
	github.com/phf/go-queue v0.0.0-20170504031614-9abe38d0371d // indirect
	github.com/pkg/errors v0.9.1 // indirect
	github.com/pmezard/go-difflib v1.0.1-0.20181226105442-5d4384ee4fb2 // indirect
	github.com/r3labs/sse/v2 v2.8.1 // indirect
	github.com/rs/xid v1.6.0 // indirect
	github.com/sirupsen/logrus v1.9.3 // indirect
	github.com/stretchr/testify v1.11.1 // indirect
	github.com/tidwall/gjson v1.18.0 // indirect
	github.com/tidwall/match v1.1.1 // indirect
	github.com/tidwall/pretty v1.2.1 // indirect
	github.com/tidwall/sjson v1.2.5 // indirect
	github.com/wundergraph/cosmo/router v0.0.0-20260611115430-e8a965a40952 // indirect
	github.com/wundergraph/go-arena v1.3.0 // indirect
	go.uber.org/multierr v1.11.0 // indirect
	go.uber.org/zap v1.27.0 // indirect
	golang.org/x/net v0.56.0 // indirect
	golang.org/x/sync v0.21.0 // indirect
	golang.org/x/sys v0.46.0 // indirect
	golang.org/x/text v0.39.0 // indirect
	google.golang.org/genproto/googleapis/rpc v0.0.0-20260401024825-9d38bb4040a9 // indirect
	google.golang.org/protobuf v1.36.11 // indirect
	gopkg.in/cenkalti/backoff.v1 v1.1.0 // indirect
	gopkg.in/yaml.v3 v3.0.1 // indirect
)

replace github.com/wundergraph/graphql-go-tools/v2 => /repo/v2

replace github.com/wundergraph/graphql-go-tools/execution => /repo/execution

replace github.com/tidwall/sjson => github.com/tidwall/sjson v1.0.4
