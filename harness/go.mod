module verif/harness

go 1.25.0

require (
	github.com/wundergraph/graphql-go-tools/execution v0.0.0
	github.com/wundergraph/graphql-go-tools/v2 v2.4.4
)

require (
	github.com/buger/jsonparser v1.1.2 // indirect
	github.com/cespare/xxhash/v2 v2.3.0 // indirect
	github.com/wundergraph/go-arena v1.3.0 // indirect
)

replace github.com/wundergraph/graphql-go-tools/v2 => /repo/v2

replace github.com/wundergraph/graphql-go-tools/execution => /repo/execution

replace github.com/tidwall/sjson => github.com/tidwall/sjson v1.0.4
