package main

// C14 — denied fields never reach the client and denied mutations never reach a subgraph.
//
// A case is (layout L1M = L1 + mutations, universe, operation, protected coordinates P, decision d : P → allow|deny).
// The operation runs through the execution engine in both authorizer modes — (A) post-fetch Authorizer
// (AuthorizeObjectField per field, AuthorizePreFetch for mutation root fields) and (B) up-front BatchAuthorizer — and, for
// queries, also with @defer fragments (C10's generator and frame recorder).  The Lean reference executor with the denied
// coordinates (Schema.denied) gives the expected data; the request-sent rule is Misc.Authz.fetchSent through the driver.

import (
	"encoding/json"
	"fmt"
	"io"
	"math/rand"
	"os"
	"regexp"
	"sort"
	"strings"
	"sync"

	"github.com/wundergraph/graphql-go-tools/execution/engine"
	"github.com/wundergraph/graphql-go-tools/v2/pkg/ast"
	"github.com/wundergraph/graphql-go-tools/v2/pkg/astparser"
	"github.com/wundergraph/graphql-go-tools/v2/pkg/engine/plan"
	"github.com/wundergraph/graphql-go-tools/v2/pkg/engine/resolve"
)

func init() { props["C14"] = runC14 }

type c14Case struct {
	Layout    string          `json:"layout"`
	Universe  *fedUniverse    `json:"universe"`
	Operation string          `json:"operation"`
	Variables json.RawMessage `json:"variables"`
	Deferred  string          `json:"deferredOperation,omitempty"` // the same operation with @defer fragments (queries only)
	DeferVars json.RawMessage `json:"deferredVariables,omitempty"`
	Protected [][2]string     `json:"protected"`
	Denied    [][2]string     `json:"denied"`
	// Split: the implementations of an interface field are decided independently; only positions whose run-time
	// coordinate AND every interface coordinate of the field are denied are checked, and only for leaks
	Split bool `json:"split,omitempty"`
}

// ---- the two authorizers ---------------------------------------------------------------------------------------------

type c14Authorizer struct {
	denied map[[2]string]bool
	mu     sync.Mutex
	asked  map[[2]string]bool
}

func (a *c14Authorizer) note(c resolve.GraphCoordinate) bool {
	k := [2]string{c.TypeName, c.FieldName}
	a.mu.Lock()
	a.asked[k] = true
	a.mu.Unlock()
	return a.denied[k]
}

func (a *c14Authorizer) AuthorizePreFetch(ctx *resolve.Context, dataSourceID string, input json.RawMessage, coordinate resolve.GraphCoordinate) (*resolve.AuthorizationDeny, error) {
	if a.note(coordinate) {
		return &resolve.AuthorizationDeny{Reason: "denied"}, nil
	}
	return nil, nil
}

func (a *c14Authorizer) AuthorizeObjectField(ctx *resolve.Context, dataSourceID string, object json.RawMessage, coordinate resolve.GraphCoordinate) (*resolve.AuthorizationDeny, error) {
	if a.note(coordinate) {
		return &resolve.AuthorizationDeny{Reason: "denied"}, nil
	}
	return nil, nil
}
func (a *c14Authorizer) HasResponseExtensionData(ctx *resolve.Context) bool { return false }
func (a *c14Authorizer) RenderResponseExtension(ctx *resolve.Context, out io.Writer) error {
	return nil
}

func (a *c14Authorizer) AuthorizeFields(ctx *resolve.Context, coordinates []resolve.GraphCoordinate) ([]resolve.AuthorizationDecision, error) {
	out := make([]resolve.AuthorizationDecision, len(coordinates))
	for i, c := range coordinates {
		if a.note(c) {
			out[i] = resolve.AuthorizationDecision{Allowed: false, Reason: "denied"}
		} else {
			out[i] = resolve.AuthorizationDecision{Allowed: true}
		}
	}
	return out, nil
}

// ---- layout L1M: L1 plus mutations -----------------------------------------------------------------------------------------

func c14Layout() (*fedLayout, error) {
	layouts, err := fedGetLayouts()
	if err != nil {
		return nil, err
	}
	c14LayoutOnce.Do(func() {
		l := &fedLayout{Name: "L1M", Super: fedL1Super + "\ntype Mutation { setPrice(upc: ID!): Product renameUser(id: ID!): User addReview(id: ID!): Review touchProduct(upc: ID!): Product }\n"}
		for _, sg := range fedL1Subs {
			c := &fedSubgraph{Name: sg.Name, SDL: sg.SDL}
			switch sg.Name {
			case "products":
				c.SDL += "\ntype Mutation { setPrice(upc: ID!): Product touchProduct(upc: ID!): Product }\n"
			case "accounts":
				c.SDL += "\ntype Mutation { renameUser(id: ID!): User }\n"
			case "reviews":
				c.SDL += "\ntype Mutation { addReview(id: ID!): Review }\n"
			}
			l.Subs = append(l.Subs, c)
		}
		if err := l.prepare(); err != nil {
			c14LayoutErr = err
			return
		}
		layouts["L1M"] = l
	})
	return layouts["L1M"], c14LayoutErr
}

var c14LayoutOnce sync.Once
var c14LayoutErr error

// interface families: a field of an interface and the same field of its implementations are protected and decided together
func c14Family(s *fedSchema, typ, field string) [][2]string {
	out := [][2]string{{typ, field}}
	add := func(t string) {
		for _, o := range out {
			if o[0] == t {
				return
			}
		}
		out = append(out, [2]string{t, field})
	}
	for _, t := range s.Types {
		if t.Kind != "INTERFACE" {
			continue
		}
		has := false
		for _, f := range t.Fields {
			if f.Name == field {
				has = true
			}
		}
		if !has {
			continue
		}
		if t.Name == typ || containsStr(t.Possible, typ) {
			add(t.Name)
			for _, p := range t.Possible {
				add(p)
			}
		}
	}
	return out
}

func c14GenDecisionsSplit(r *rand.Rand, s *fedSchema) (protected, denied [][2]string) {
	seen := map[[2]string]bool{}
	// interface fields: protect the whole family, deny the interface coordinate and a proper non-empty subset of the
	// implementations (so that one plan field meets allowed and denied run-time types in one list)
	for _, t := range s.Types {
		if t.Kind != "INTERFACE" || len(t.Possible) < 2 {
			continue
		}
		for _, f := range t.Fields {
			if r.Intn(2) == 0 {
				continue
			}
			protected = append(protected, [2]string{t.Name, f.Name})
			seen[[2]string{t.Name, f.Name}] = true
			if r.Intn(4) != 0 {
				denied = append(denied, [2]string{t.Name, f.Name})
			}
			k := r.Intn(len(t.Possible))
			for i, p := range t.Possible {
				protected = append(protected, [2]string{p, f.Name})
				seen[[2]string{p, f.Name}] = true
				if i == k || r.Intn(3) == 0 {
					if i != (k+1)%len(t.Possible) {
						denied = append(denied, [2]string{p, f.Name})
					}
				}
			}
		}
	}
	for _, t := range s.Types {
		if t.Kind != "OBJECT" {
			continue
		}
		for _, f := range t.Fields {
			if seen[[2]string{t.Name, f.Name}] || r.Intn(3) != 0 {
				continue
			}
			protected = append(protected, [2]string{t.Name, f.Name})
			if r.Intn(2) == 0 {
				denied = append(denied, [2]string{t.Name, f.Name})
			}
		}
	}
	return
}

// the coordinates T.f (T an object type) that are denied together with every interface coordinate I.f of an interface of T
func c14CertainlyDenied(s *fedSchema, den map[[2]string]bool) [][2]string {
	var out [][2]string
	for _, t := range s.Types {
		if t.Kind != "OBJECT" {
			continue
		}
		for _, f := range t.Fields {
			if !den[[2]string{t.Name, f.Name}] {
				continue
			}
			ok := true
			for _, it := range s.Types {
				if it.Kind != "INTERFACE" || !containsStr(it.Possible, t.Name) {
					continue
				}
				for _, itf := range it.Fields {
					if itf.Name == f.Name && !den[[2]string{it.Name, f.Name}] {
						ok = false
					}
				}
			}
			if ok {
				out = append(out, [2]string{t.Name, f.Name})
			}
		}
	}
	return out
}

func c14GenDecisions(r *rand.Rand, s *fedSchema) (protected, denied [][2]string) {
	seen := map[[2]string]bool{}
	pProb := 2 + r.Intn(4) // 1/pProb of the coordinates are protected
	for _, t := range s.Types {
		if t.Kind != "OBJECT" {
			continue
		}
		for _, f := range t.Fields {
			k := [2]string{t.Name, f.Name}
			if seen[k] || r.Intn(pProb) != 0 {
				continue
			}
			deny := r.Intn(2) == 0
			for _, m := range c14Family(s, t.Name, f.Name) {
				if seen[m] {
					continue
				}
				seen[m] = true
				protected = append(protected, m)
				if deny {
					denied = append(denied, m)
				}
			}
		}
	}
	sort.Slice(protected, func(i, j int) bool { return protected[i][0]+"."+protected[i][1] < protected[j][0]+"."+protected[j][1] })
	sort.Slice(denied, func(i, j int) bool { return denied[i][0]+"."+denied[i][1] < denied[j][0]+"."+denied[j][1] })
	return
}

func c14GenMutation(r *rand.Rand, s *fedSchema, u *fedUniverse) (string, []byte) {
	g := &fedOpGen{r: r, s: s, vars: map[string]any{}, feats: map[string]bool{}, budget: 8 + r.Intn(10)}
	hint := func(arg string) string {
		var cands []string
		for _, n := range u.Nodes {
			if v, ok := n.Fields[arg].(map[string]any); ok {
				if sv, ok := v["s"].(string); ok {
					cands = append(cands, sv)
				}
			}
		}
		if len(cands) == 0 {
			return "nope"
		}
		return cands[r.Intn(len(cands))]
	}
	m := s.typ(s.Mutation)
	var parts []string
	n := 1 + r.Intn(3)
	for i := 0; i < n; i++ {
		f := m.Fields[r.Intn(len(m.Fields))]
		arg := f.ArgNames[0]
		parts = append(parts, fmt.Sprintf("m%d: %s(%s: %q) %s", i, f.Name, arg, hint(arg), g.selection(fedNamed(f.Type), 2, hint)))
	}
	op := "mutation Q"
	if len(g.decls) > 0 {
		op += "(" + strings.Join(g.decls, ", ") + ")"
	}
	op += " { " + strings.Join(parts, " ") + " }"
	if len(g.frags) > 0 {
		op += " " + strings.Join(g.frags, " ")
	}
	vars, _ := json.Marshal(g.vars)
	return op, vars
}

// ---- reference and comparison --------------------------------------------------------------------------------------------

func c14Reference(run *Run, l *fedLayout, c *c14Case, opText string, vars []byte, denied [][2]string) (data any, errs []string, err error) {
	return c14ReferenceT(run, l.super.Types, l, c, opText, vars, denied)
}

// every type made nullable: a denial then nulls exactly the denied positions (no propagation)
func c14NullableTypes(types []*fedType) []*fedType {
	var strip func(t map[string]any) map[string]any
	strip = func(t map[string]any) map[string]any {
		if t == nil {
			return nil
		}
		if t["k"] == "nonnull" {
			of, _ := t["of"].(map[string]any)
			return strip(of)
		}
		out := map[string]any{}
		for k, v := range t {
			out[k] = v
		}
		if of, ok := t["of"].(map[string]any); ok {
			out["of"] = strip(of)
		}
		return out
	}
	var out []*fedType
	for _, t := range types {
		c := *t
		c.Fields = nil
		for _, f := range t.Fields {
			fc := *f
			fc.Type = strip(f.Type)
			c.Fields = append(c.Fields, &fc)
		}
		out = append(out, &c)
	}
	return out
}

func c14ReferenceT(run *Run, types []*fedType, l *fedLayout, c *c14Case, opText string, vars []byte, denied [][2]string) (data any, errs []string, err error) {
	op, err := fedOpJSON(opText, "Q")
	if err != nil {
		return nil, nil, err
	}
	if len(vars) == 0 {
		vars = []byte(`{}`)
	}
	if denied == nil {
		denied = [][2]string{}
	}
	raw, err := run.Pool.Ask("fed.exec", map[string]any{"schema": map[string]any{"types": types, "query": l.super.Query, "mutation": l.super.Mutation, "denied": denied},
		"universe": c.Universe, "op": op, "vars": json.RawMessage(vars)})
	if err != nil {
		return nil, nil, err
	}
	var r struct {
		Data   json.RawMessage `json:"data"`
		Errors []string        `json:"errors"`
	}
	_ = json.Unmarshal(raw, &r)
	dec := json.NewDecoder(strings.NewReader(string(r.Data)))
	dec.UseNumber()
	_ = dec.Decode(&data)
	return data, r.Errors, nil
}

// positions (paths) that hold a value without denial and null with denial, top-most only
func c14NulledPositions(clean, denied any, path []any, out *[][]any) {
	switch cv := clean.(type) {
	case map[string]any:
		dv, ok := denied.(map[string]any)
		if !ok {
			if denied == nil {
				*out = append(*out, append([]any{}, path...))
			}
			return
		}
		for k, x := range cv {
			c14NulledPositions(x, dv[k], append(path, k), out)
		}
	case []any:
		dv, ok := denied.([]any)
		if !ok {
			if denied == nil {
				*out = append(*out, append([]any{}, path...))
			}
			return
		}
		for i := range cv {
			if i < len(dv) {
				c14NulledPositions(cv[i], dv[i], append(path, i), out)
			}
		}
	case nil:
	default:
		if denied == nil {
			*out = append(*out, append([]any{}, path...))
		}
	}
}

func c14Get(v any, path []any) (any, bool) {
	for _, p := range path {
		switch k := p.(type) {
		case string:
			m, ok := v.(map[string]any)
			if !ok {
				return nil, false
			}
			v, ok = m[k]
			if !ok {
				return nil, false
			}
		case int:
			a, ok := v.([]any)
			if !ok || k >= len(a) {
				return nil, false
			}
			v = a[k]
		}
	}
	return v, true
}

func c14PathOf(e any) ([]any, bool) {
	m, ok := e.(map[string]any)
	if !ok {
		return nil, false
	}
	raw, ok := m["path"].([]any)
	if !ok {
		return nil, false
	}
	var out []any
	for _, p := range raw {
		switch x := p.(type) {
		case string:
			out = append(out, x)
		case json.Number:
			i, _ := x.Int64()
			out = append(out, int(i))
		case float64:
			out = append(out, int(x))
		}
	}
	return out, true
}

func c14IsUnauthorized(e any) bool {
	m, ok := e.(map[string]any)
	if !ok {
		return false
	}
	if ext, ok := m["extensions"].(map[string]any); ok {
		if code, _ := ext["code"].(string); code == "UNAUTHORIZED_FIELD_OR_TYPE" {
			return true
		}
	}
	msg, _ := m["message"].(string)
	return strings.HasPrefix(msg, "Unauthorized")
}

func c14HasPrefix(path, prefix []any) bool {
	if len(path) < len(prefix) {
		return false
	}
	for i := range prefix {
		if fmt.Sprint(path[i]) != fmt.Sprint(prefix[i]) {
			return false
		}
	}
	return true
}

// string leaves of a JSON value
func c14Strings(v any, out map[string]bool) {
	switch x := v.(type) {
	case map[string]any:
		for _, y := range x {
			c14Strings(y, out)
		}
	case []any:
		for _, y := range x {
			c14Strings(y, out)
		}
	case string:
		out[x] = true
	}
}

// the root field coordinates of a subgraph request
func c14RootFields(query string, rootQuery, rootMutation string) (opType string, coords [][2]string) {
	doc, rep := astparser.ParseGraphqlDocumentString(query)
	if rep.HasErrors() {
		return "", nil
	}
	for _, n := range doc.RootNodes {
		if n.Kind != ast.NodeKindOperationDefinition {
			continue
		}
		od := doc.OperationDefinitions[n.Ref]
		opType = "query"
		rootType := rootQuery
		if od.OperationType == ast.OperationTypeMutation {
			opType, rootType = "mutation", rootMutation
		}
		if !od.HasSelections {
			return
		}
		var fieldsOf func(set int, typ string)
		fieldsOf = func(set int, typ string) {
			for _, sr := range doc.SelectionSets[set].SelectionRefs {
				sel := doc.Selections[sr]
				switch sel.Kind {
				case ast.SelectionKindField:
					name := doc.FieldNameString(sel.Ref)
					if name == "__typename" {
						continue
					}
					if name == "_entities" && doc.Fields[sel.Ref].HasSelections {
						for _, er := range doc.SelectionSets[doc.Fields[sel.Ref].SelectionSet].SelectionRefs {
							es := doc.Selections[er]
							if es.Kind == ast.SelectionKindInlineFragment && doc.InlineFragmentHasTypeCondition(es.Ref) {
								fieldsOf(doc.InlineFragments[es.Ref].SelectionSet, doc.InlineFragmentTypeConditionNameString(es.Ref))
							}
						}
						continue
					}
					coords = append(coords, [2]string{typ, name})
				case ast.SelectionKindInlineFragment:
					t := typ
					if doc.InlineFragmentHasTypeCondition(sel.Ref) {
						t = doc.InlineFragmentTypeConditionNameString(sel.Ref)
					}
					fieldsOf(doc.InlineFragments[sel.Ref].SelectionSet, t)
				}
			}
		}
		fieldsOf(od.SelectionSet, rootType)
		return
	}
	return
}

func c14Check(run *Run, c *c14Case) {
	l, err := c14Layout()
	if err != nil {
		run.Violate(Violation{Kind: "oracle", Clause: "layout_builds", Detail: err.Error()}, "")
		return
	}
	in := map[string]any{"case": c}
	prot, den := map[[2]string]bool{}, map[[2]string]bool{}
	for _, p := range c.Protected {
		prot[p] = true
	}
	for _, d := range c.Denied {
		den[d] = true
	}
	if c.Split {
		c14CheckSplit(run, l, c, den)
		return
	}
	clean, cleanErrs, err := c14Reference(run, l, c, c.Operation, c.Variables, nil)
	if err != nil {
		run.Violate(Violation{Kind: "correspondence", Clause: "driver", Input: in, Detail: err.Error()}, "")
		return
	}
	want, wantErrs, err := c14Reference(run, l, c, c.Operation, c.Variables, c.Denied)
	if err != nil {
		run.Violate(Violation{Kind: "correspondence", Clause: "driver", Input: in, Detail: err.Error()}, "")
		return
	}
	if len(cleanErrs) > 0 {
		run.Feat("clean_reference_has_errors")
	}
	if os.Getenv("VERIF_DEBUG") != "" {
		fmt.Fprintf(os.Stderr, "clean: %s\nwant: %s\n", jsonStr(clean), jsonStr(want))
	}
	var nulledPos [][]any
	c14NulledPositions(clean, want, nil, &nulledPos)
	// values that exist only at denied positions: they must not occur anywhere in the response bytes
	cleanStrs, wantStrs := map[string]bool{}, map[string]bool{}
	c14Strings(clean, cleanStrs)
	c14Strings(want, wantStrs)
	// when an input of a @requires field is denied, the engine may compute that field from null inputs ("c(null)", see (1) below):
	// such a string carries no denied value, also when the clean reference happens to hold the same string at a denied position
	nullComputed := regexp.MustCompile(`^c\(null(,null)*\)$`)
	deniedInput := c14DeniedRequiresInput(l, den)
	var secrets []string
	for s := range cleanStrs {
		if !wantStrs[s] && len(s) >= 3 && !(deniedInput && nullComputed.MatchString(s)) {
			secrets = append(secrets, s)
		}
	}
	sort.Strings(secrets)
	// for deferred payloads (null propagation is per payload): the positions that are denied themselves
	var directPos [][]any
	var directSecrets []string
	if c.Deferred != "" {
		nt := c14NullableTypes(l.super.Types)
		cleanN, _, err1 := c14ReferenceT(run, nt, l, c, c.Operation, c.Variables, nil)
		wantN, _, err2 := c14ReferenceT(run, nt, l, c, c.Operation, c.Variables, c.Denied)
		if err1 == nil && err2 == nil {
			c14NulledPositions(cleanN, wantN, nil, &directPos)
			a, b := map[string]bool{}, map[string]bool{}
			c14Strings(cleanN, a)
			c14Strings(wantN, b)
			for s := range a {
				if !b[s] && len(s) >= 3 && !(deniedInput && nullComputed.MatchString(s)) {
					directSecrets = append(directSecrets, s)
				}
			}
			sort.Strings(directSecrets)
		}
	}
	isMutation := strings.HasPrefix(c.Operation, "mutation")

	customize := func(conf *engine.Configuration) {
		fcs := append(plan.FieldConfigurations{}, conf.FieldConfigurations()...)
		for _, p := range c.Protected {
			found := false
			for i := range fcs {
				if fcs[i].TypeName == p[0] && fcs[i].FieldName == p[1] {
					fcs[i].HasAuthorizationRule = true
					found = true
				}
			}
			if !found {
				fcs = append(fcs, plan.FieldConfiguration{TypeName: p[0], FieldName: p[1], HasAuthorizationRule: true})
			}
		}
		conf.SetFieldConfigurations(fcs)
	}
	for _, mode := range []string{"postfetch", "prefetch"} {
		eng, err := fedNewEngine(l, fedEngineOpts{customize: customize})
		if err != nil {
			run.Violate(Violation{Kind: "oracle", Clause: "engine_builds", Input: in, Detail: err.Error()}, "")
			return
		}
		auth := &c14Authorizer{denied: den, asked: map[[2]string]bool{}}
		var opt engine.ExecutionOptions
		if mode == "postfetch" {
			opt = engine.WithAuthorizer(auth)
		} else {
			opt = engine.WithPreFetchFieldAuthorizer(auth)
		}
		in2 := map[string]any{"case": c, "mode": mode}
		sess := &fedSession{layout: l, universe: c.Universe, pool: run.Pool}
		resp := eng.run(sess, c.Operation, "Q", c.Variables, opt)
		if resp.Err != nil {
			eng.cancel()
			run.Violate(Violation{Kind: "oracle", Clause: "executes", Input: in2, Detail: "Execute failed: " + resp.Err.Error()}, "")
			continue
		}
		// (1) the data is the reference data under the denied set (the value a @requires field computes when one of its
		// inputs is denied is not prescribed: the input may be fetched internally, or its fetch skipped)
		gotCmp, wantCmp := resp.Data, want
		if c14DeniedRequiresInput(l, den) {
			gotCmp, wantCmp = c14MaskComputed(resp.Data), c14MaskComputed(want)
			run.Feat("denied_requires_input")
		}
		if !fedJSONEqual(gotCmp, wantCmp) {
			run.Violate(Violation{Kind: "oracle", Clause: "data_equals_reference_under_denial:" + mode, Input: in2, Impl: resp.Raw, Model: want,
				Detail: fmt.Sprintf("engine %s; reference with the denied coordinates %s; reference without denial %s", truncate(resp.Raw, 900), truncate(jsonStr(want), 700), truncate(jsonStr(clean), 500))}, "")
		}
		// (2) no value of a denied position anywhere in the bytes
		for _, s := range secrets {
			b, _ := json.Marshal(s)
			if strings.Contains(resp.Raw, string(b)) {
				run.Violate(Violation{Kind: "oracle", Clause: "no_denied_value_in_bytes:" + mode, Input: in2, Impl: resp.Raw,
					Detail: fmt.Sprintf("the response contains %s, which only denied positions hold: %s", b, truncate(resp.Raw, 900))}, "")
				break
			}
		}
		// (3) the denial is reported at the position (or below it, when it propagated from a non-null child)
		c14CheckErrors(run, in2, mode, resp.Data, resp.Errors, nulledPos, len(wantErrs) > 0, resp.Raw)
		// (4) the request-sent rule
		c14CheckRequests(run, in2, mode, l, resp.Log, prot, den)
		if isMutation {
			run.Feat("mutation:" + mode)
		}
		run.Feat(fmt.Sprintf("asked:%d", min(len(auth.asked), 6)))
		// (5) the same query with @defer fragments: no payload may carry a value of a denied position
		if c.Deferred != "" {
			sess := &fedSession{layout: l, universe: c.Universe, pool: run.Pool}
			sess.gate = c10Gate(int64(len(c.Deferred)), 2)
			st := eng.runStreamOpts(sess, c.Deferred, "Q", c.DeferVars, 0, opt)
			in3 := map[string]any{"case": c, "mode": mode, "deferred": true}
			if st.Err == nil && !st.TimedOut && len(st.Frames) > 0 {
				all := strings.Join(st.Frames, "\n")
				for _, s := range directSecrets {
					b, _ := json.Marshal(s)
					if strings.Contains(all, string(b)) {
						run.Violate(Violation{Kind: "oracle", Clause: "no_denied_value_in_deferred_payloads:" + mode, Input: in3, Impl: st.Frames,
							Detail: fmt.Sprintf("a payload contains %s, which only denied positions hold: %s", b, truncate(all, 1200))}, "")
						break
					}
				}
				var frames []json.RawMessage
				ok := true
				for _, f := range st.Frames {
					if !json.Valid([]byte(f)) {
						ok = false
					}
					frames = append(frames, json.RawMessage(f))
				}
				if ok && (len(frames) > 1 || strings.Contains(st.Frames[0], `"hasNext"`)) {
					if raw, err := run.Pool.Ask("c10.check", map[string]any{"frames": frames}); err == nil {
						var res struct {
							Data json.RawMessage `json:"data"`
						}
						_ = json.Unmarshal(raw, &res)
						var got any
						dec := json.NewDecoder(strings.NewReader(string(res.Data)))
						dec.UseNumber()
						_ = dec.Decode(&got)
						for _, p := range directPos {
							if v, ok := c14Get(got, p); ok && v != nil {
								run.Violate(Violation{Kind: "oracle", Clause: "denied_position_null_in_deferred_payloads:" + mode, Input: in3, Impl: st.Frames, Model: want,
									Detail: fmt.Sprintf("position %v is denied (null in the reference) but the payloads deliver %s: %s", p, truncate(jsonStr(v), 200), truncate(all, 1200))}, "")
								break
							}
						}
						run.Feat("deferred_stream:" + mode)
					}
				}
				c14CheckRequestsK(run, in3, mode, l, st.Log, prot, den, true)
			}
		}
		eng.cancel()
		run.mu.Lock()
		run.TracesVsImpl++
		run.mu.Unlock()
	}
	if len(nulledPos) > 0 {
		run.Feat("denial_reached")
	}
	run.Feat(fmt.Sprintf("nulled_positions:%d", min(len(nulledPos), 5)))
}

func c14Customize(c *c14Case) func(conf *engine.Configuration) {
	return func(conf *engine.Configuration) {
		fcs := append(plan.FieldConfigurations{}, conf.FieldConfigurations()...)
		for _, p := range c.Protected {
			found := false
			for i := range fcs {
				if fcs[i].TypeName == p[0] && fcs[i].FieldName == p[1] {
					fcs[i].HasAuthorizationRule = true
					found = true
				}
			}
			if !found {
				fcs = append(fcs, plan.FieldConfiguration{TypeName: p[0], FieldName: p[1], HasAuthorizationRule: true})
			}
		}
		conf.SetFieldConfigurations(fcs)
	}
}

// independent decisions for the implementations of an interface field: leak check at the certainly denied positions
func c14CheckSplit(run *Run, l *fedLayout, c *c14Case, den map[[2]string]bool) {
	in := map[string]any{"case": c}
	certain := c14CertainlyDenied(l.super, den)
	nt := c14NullableTypes(l.super.Types)
	cleanN, _, err1 := c14ReferenceT(run, nt, l, c, c.Operation, c.Variables, nil)
	wantN, _, err2 := c14ReferenceT(run, nt, l, c, c.Operation, c.Variables, certain)
	if err1 != nil || err2 != nil {
		return
	}
	var pos [][]any
	c14NulledPositions(cleanN, wantN, nil, &pos)
	for _, mode := range []string{"postfetch", "prefetch"} {
		eng, err := fedNewEngine(l, fedEngineOpts{customize: c14Customize(c)})
		if err != nil {
			return
		}
		auth := &c14Authorizer{denied: den, asked: map[[2]string]bool{}}
		opt := engine.WithAuthorizer(auth)
		if mode == "prefetch" {
			opt = engine.WithPreFetchFieldAuthorizer(auth)
		}
		resp := eng.run(&fedSession{layout: l, universe: c.Universe, pool: run.Pool}, c.Operation, "Q", c.Variables, opt)
		eng.cancel()
		if os.Getenv("VERIF_DEBUG") != "" {
			fmt.Fprintf(os.Stderr, "split %s: asked=%v err=%v resp=%s pos=%v\n", mode, auth.asked, resp.Err, truncate(resp.Raw, 600), pos)
		}
		if resp.Err != nil {
			continue
		}
		for _, p := range pos {
			if v, ok := c14Get(resp.Data, p); ok && v != nil {
				run.Violate(Violation{Kind: "oracle", Clause: "certainly_denied_position_is_null:" + mode, Input: map[string]any{"case": c, "mode": mode}, Impl: resp.Raw, Model: wantN,
					Detail: fmt.Sprintf("position %v: its run-time coordinate and every interface coordinate of the field are denied, but the response holds %s: %s", p, truncate(jsonStr(v), 200), truncate(resp.Raw, 900))}, "")
				break
			}
		}
		run.mu.Lock()
		run.TracesVsImpl++
		run.mu.Unlock()
	}
	_ = in
	if len(pos) > 0 {
		run.Feat("split:denial_reached")
	}
	run.Feat("split")
}

func c14CheckErrors(run *Run, in any, mode string, data any, errs []any, nulledPos [][]any, expectErrors bool, raw string) {
	var unauth [][]any
	for _, e := range errs {
		if c14IsUnauthorized(e) {
			if p, ok := c14PathOf(e); ok {
				unauth = append(unauth, p)
				// the position the error names holds no value
				if v, ok := c14Get(data, p); ok && v != nil {
					run.Violate(Violation{Kind: "oracle", Clause: "unauthorized_position_is_null:" + mode, Input: in, Impl: raw,
						Detail: fmt.Sprintf("an authorization error names path %v, which holds %s", p, truncate(jsonStr(v), 200))}, "")
				}
			}
		}
	}
	for _, p := range nulledPos {
		found := false
		for _, ep := range unauth {
			if c14HasPrefix(ep, p) {
				found = true
				break
			}
		}
		if !found {
			known := ""
			for _, ep := range unauth {
				if c14HasPrefixModuloIndices(ep, p) {
					// the same object reached through another list element already got the error (and was nulled in place)
					known = "C14-denial-reported-once-per-shared-object"
				}
			}
			run.Violate(Violation{Kind: "oracle", Clause: "denial_reported_at_position:" + mode, Input: in, Impl: raw,
				Detail: fmt.Sprintf("position %v was nulled by a denial but no authorization error has a path at or below it; errors: %s", p, truncate(jsonStr(errs), 700))}, known)
			return
		}
	}
}

func c14CheckRequests(run *Run, in any, mode string, l *fedLayout, log []fedExchange, prot, den map[[2]string]bool) {
	c14CheckRequestsK(run, in, mode, l, log, prot, den, false)
}

func c14CheckRequestsK(run *Run, in any, mode string, l *fedLayout, log []fedExchange, prot, den map[[2]string]bool, deferredRun bool) {
	for _, ex := range log {
		opType, roots := c14RootFields(ex.Query, l.super.Query, l.super.Mutation)
		if len(roots) == 0 {
			continue
		}
		if opType == "query" && mode != "prefetch" {
			continue // the query rule is stated for up-front authorization
		}
		var rs []map[string]any
		for _, r := range roots {
			rs = append(rs, map[string]any{"protected": prot[r], "denied": den[r]})
		}
		raw, err := run.Pool.Ask("c14.sent", map[string]any{"opType": opType, "roots": rs})
		if err != nil {
			continue
		}
		var res struct {
			Sent bool `json:"sent"`
		}
		_ = json.Unmarshal(raw, &res)
		if !res.Sent {
			known := ""
			if deferredRun && opType == "query" {
				// the loaders of defer groups are created without the seeded decisions (documented in Loader.authorization)
				known = "C14-deferred-fetches-are-not-pruned"
			}
			run.Violate(Violation{Kind: "oracle", Clause: "request_sent_rule:" + mode, Input: in, Impl: ex,
				Detail: fmt.Sprintf("a %s request with root fields %v was sent to subgraph %s although the rule forbids it (denied: %v): %s", opType, roots, ex.Subgraph, c14DeniedOf(roots, den), truncate(ex.Query, 400))}, known)
		} else if len(rs) > 0 {
			run.Feat("request_checked:" + opType)
		}
	}
}

func c14DeniedOf(roots [][2]string, den map[[2]string]bool) [][2]string {
	var out [][2]string
	for _, r := range roots {
		if den[r] {
			out = append(out, r)
		}
	}
	return out
}

func runC14(run *Run, replay string) Spec {
	spec := Spec{
		Level:       "translation_validation",
		Rule:        "layout L1M (L1 + mutations) × generated universes × generated operations (queries, queries with @defer fragments, mutations with 1–3 root fields) × random protected sets P (closed under interface / implementation of a field) × random decisions d : P → allow|deny × both authorizer modes: engine data = Lean reference executor with Schema.denied = deny(d); string values that occur only at denied positions do not occur in the response bytes nor in any deferred payload; every position nulled by a denial has an authorization error at or below it and every authorization error names a null position; no subgraph request is sent that Authz.fetchSent forbids (query rule in up-front mode, mutation rule in both). non-trivial = cases in which a denial is reached; distinct = distinct (universe, operation, P, d)",
		TrustedBase: []string{"the Lean reference executor GqlVerif.Gql.Exec with denied coordinates as the meaning of a denial (theorems in Props.C14)", "the harness' semantic subgraphs, authorizers (decision by coordinate only) and request parser", "the C10 frame recorder and Defer.reconstruct for deferred payloads"},
		Assumptions: []string{"decisions depend on the coordinate only (not on the object data or the data source id)", "a field of an interface and the same field of its implementations are protected and decided together, so that the plan-time and the run-time coordinate of a position agree", "subscription updates are not exercised (no federated subscription transport in this harness); the deferred check is limited to leaks because of the open C10 findings"},
	}
	l, err := c14Layout()
	if err != nil {
		run.Violate(Violation{Kind: "oracle", Clause: "layout_builds", Detail: err.Error()}, "")
		return spec
	}
	if replay != "" {
		if b, err := os.ReadFile(replay); err == nil {
			var f struct {
				Violation struct {
					Input struct {
						Case *c14Case `json:"case"`
					} `json:"input"`
				} `json:"violation"`
			}
			var fs struct {
				Violation struct {
					Input struct {
						Case *c14SubCase `json:"case"`
					} `json:"input"`
				} `json:"violation"`
			}
			if json.Unmarshal(b, &fs) == nil && fs.Violation.Input.Case != nil && fs.Violation.Input.Case.Subscription {
				c14SubCheck(run, fs.Violation.Input.Case)
				run.Count("replay")
				return spec
			}
			if json.Unmarshal(b, &f) == nil && f.Violation.Input.Case != nil {
				c14Check(run, f.Violation.Input.Case)
				run.Count("replay")
			}
		}
		return spec
	}
	n := 250
	if run.Tier == "thorough" {
		n = 8000
	}
	var wg sync.WaitGroup
	ch := make(chan int, 64)
	for w := 0; w < 8; w++ {
		wg.Add(1)
		go func(w int) {
			defer wg.Done()
			for k := range ch {
				if run.NViolations() >= 6 {
					continue
				}
				r := subRng(run.Seed, k)
				if k%5 == 4 {
					// a subscription whose updates need nested fetches (c14s.go)
					if ls, err := c14SubLayout(); err == nil {
						sc := c14GenSubCase(r, ls)
						run.SetCurrent(w, sc)
						c14SubCheck(run, sc)
						run.Count(sc.Operation + jsonStr(sc.Denied) + jsonStr(sc.Universe))
					} else {
						run.Violate(Violation{Kind: "oracle", Clause: "layout_builds", Detail: err.Error()}, "")
					}
					continue
				}
				u := fedL1Universe(r)
				c := &c14Case{Layout: "L1M", Universe: u}
				if r.Intn(4) == 0 {
					op, vars := c14GenMutation(r, l.super, u)
					c.Operation, c.Variables = op, vars
				} else {
					op, vars, _ := fedGenOperation(r, l.super, u)
					c.Operation, c.Variables = op, vars
					if r.Intn(2) == 0 {
						for try := 0; try < 10; try++ {
							dop, dvars, _ := fedGenOperationDefer(r, l.super, u, 2+r.Intn(3))
							if strings.Contains(dop, "@defer") {
								// the deferred variant is its own operation: compare it with its own undeferred form
								sop, svars := c10Stripped(dop, dvars)
								c.Operation, c.Variables = sop, svars
								c.Deferred, c.DeferVars = dop, dvars
								break
							}
						}
					}
				}
				if r.Intn(5) == 0 && !strings.HasPrefix(c.Operation, "mutation") {
					c.Split = true
					c.Deferred, c.DeferVars = "", nil
					c.Protected, c.Denied = c14GenDecisionsSplit(r, l.super)
				} else {
					c.Protected, c.Denied = c14GenDecisions(r, l.super)
				}
				run.SetCurrent(w, c)
				c14Check(run, c)
				run.Count(c.Operation + jsonStr(c.Denied) + jsonStr(u))
			}
		}(w)
	}
	for k := 0; k < n; k++ {
		ch <- k
	}
	close(ch)
	wg.Wait()
	return spec
}

// is one of the denied coordinates an input of some @requires field of the layout?
func c14DeniedRequiresInput(l *fedLayout, den map[[2]string]bool) bool {
	for _, sg := range l.Subs {
		for _, t := range sg.schema.Types {
			for _, f := range t.Fields {
				if f.Requires == "" {
					continue
				}
				for _, in := range strings.Fields(strings.NewReplacer("{", " ", "}", " ").Replace(f.Requires)) {
					if den[[2]string{t.Name, in}] {
						return true
					}
				}
			}
		}
	}
	return false
}

// the values of computed (@requires) fields are the strings "c(…)" in the semantic subgraphs
func c14MaskComputed(v any) any {
	switch x := v.(type) {
	case map[string]any:
		out := map[string]any{}
		for k, y := range x {
			out[k] = c14MaskComputed(y)
		}
		return out
	case []any:
		out := make([]any, len(x))
		for i, y := range x {
			out[i] = c14MaskComputed(y)
		}
		return out
	case string:
		if strings.HasPrefix(x, "c(") {
			return "c(*)"
		}
	}
	return v
}

// prefix test that ignores the values of list indices
func c14HasPrefixModuloIndices(path, prefix []any) bool {
	if len(path) < len(prefix) {
		return false
	}
	for i := range prefix {
		_, pi := prefix[i].(int)
		_, qi := path[i].(int)
		if pi && qi {
			continue
		}
		if pi != qi || fmt.Sprint(path[i]) != fmt.Sprint(prefix[i]) {
			return false
		}
	}
	return true
}
