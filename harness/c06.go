package main

import (
	"context"
	"encoding/json"
	"fmt"
	"math/rand"
	"os"
	"regexp"
	"runtime/debug"
	"sort"
	"strconv"
	"strings"

	"github.com/jensneuse/abstractlogger"

	"github.com/wundergraph/graphql-go-tools/execution/engine"
	"github.com/wundergraph/graphql-go-tools/execution/graphql"
	"github.com/wundergraph/graphql-go-tools/v2/pkg/ast"
	"github.com/wundergraph/graphql-go-tools/v2/pkg/astnormalization"
	"github.com/wundergraph/graphql-go-tools/v2/pkg/astparser"
	"github.com/wundergraph/graphql-go-tools/v2/pkg/asttransform"
	"github.com/wundergraph/graphql-go-tools/v2/pkg/engine/resolve"
	"github.com/wundergraph/graphql-go-tools/v2/pkg/operationreport"
	"github.com/wundergraph/graphql-go-tools/v2/pkg/variablesvalidation"
)

func init() { props["C06"] = runC06 }

// ---- schema / type model shared by generator, oracle and the JSON sent to the Lean driver ------

type gType struct {
	K  string `json:"k"` // named | list | nonNull
	N  string `json:"n,omitempty"`
	Of *gType `json:"of,omitempty"`
}

func tNamed(n string) *gType   { return &gType{K: "named", N: n} }
func tList(t *gType) *gType    { return &gType{K: "list", Of: t} }
func tNonNull(t *gType) *gType { return &gType{K: "nonNull", Of: t} }
func (t *gType) String() string {
	switch t.K {
	case "list":
		return "[" + t.Of.String() + "]"
	case "nonNull":
		return t.Of.String() + "!"
	}
	return t.N
}
func (t *gType) base() string {
	for t.K != "named" {
		t = t.Of
	}
	return t.N
}

type gField struct {
	Name       string `json:"name"`
	Type       *gType `json:"type"`
	HasDefault bool   `json:"hasDefault"`
	Default    string `json:"-"` // GraphQL literal
	DefaultVal any    `json:"-"` // JSON value of the default
}

type gTypeDef struct {
	Kind   string    `json:"kind"` // scalar | enum | input | other
	Name   string    `json:"name"`
	Values [][2]any  `json:"values,omitempty"` // enum: [value, inaccessible]
	OneOf  bool      `json:"oneOf,omitempty"`
	Fields []*gField `json:"fields,omitempty"`
}

type gSchema struct {
	Types []*gTypeDef `json:"types"`
	byN   map[string]*gTypeDef
}

func (s *gSchema) find(n string) *gTypeDef { return s.byN[n] }

func (s *gSchema) sdl(queryFields string) string {
	var sb strings.Builder
	sb.WriteString("directive @oneOf on INPUT_OBJECT\ndirective @inaccessible on ENUM_VALUE | FIELD_DEFINITION\nscalar JSON\nscalar Upload\n")
	for _, t := range s.Types {
		switch t.Kind {
		case "enum":
			sb.WriteString("enum " + t.Name + " {")
			for _, v := range t.Values {
				sb.WriteString(" " + v[0].(string))
				if v[1].(bool) {
					sb.WriteString(" @inaccessible")
				}
			}
			sb.WriteString(" }\n")
		case "input":
			sb.WriteString("input " + t.Name)
			if t.OneOf {
				sb.WriteString(" @oneOf")
			}
			sb.WriteString(" {")
			for _, f := range t.Fields {
				sb.WriteString(" " + f.Name + ": " + f.Type.String())
				if f.HasDefault {
					sb.WriteString(" = " + f.Default)
				}
			}
			sb.WriteString(" }\n")
		case "other":
			if t.Name != "Query" {
				sb.WriteString("type " + t.Name + " { x: Int }\n")
			}
		}
	}
	sb.WriteString("type Query {" + queryFields + " }\n")
	return sb.String()
}

var c06Builtins = []string{"Int", "Float", "String", "Boolean", "ID"}

func c06GenType(r *rand.Rand, names []string, depth int) *gType {
	var t *gType
	if depth < 2 && r.Intn(4) == 0 {
		t = tList(c06GenType(r, names, depth+1))
	} else {
		t = tNamed(pick(r, names))
	}
	if r.Intn(3) == 0 {
		t = tNonNull(t)
	}
	return t
}

// a valid default literal (and its JSON value) for a type; only scalar/enum/list shapes
func c06DefaultFor(r *rand.Rand, s *gSchema, t *gType) (string, any, bool) {
	switch t.K {
	case "nonNull":
		return c06DefaultFor(r, s, t.Of)
	case "list":
		lit, v, ok := c06DefaultFor(r, s, t.Of)
		if !ok {
			return "[]", []any{}, true
		}
		return "[" + lit + "]", []any{v}, true
	}
	switch t.N {
	case "Int":
		return "7", json.Number("7"), true
	case "Float":
		return "1.5", json.Number("1.5"), true
	case "String":
		return `"dflt"`, "dflt", true
	case "Boolean":
		return "true", true, true
	case "ID":
		return `"id1"`, "id1", true
	case "JSON":
		return "1", json.Number("1"), true
	}
	if d := s.find(t.N); d != nil && d.Kind == "enum" {
		for _, v := range d.Values {
			if !v[1].(bool) {
				return v[0].(string), v[0].(string), true
			}
		}
	}
	return "", nil, false
}

func c06GenSchema(r *rand.Rand) *gSchema {
	s := &gSchema{byN: map[string]*gTypeDef{}}
	add := func(t *gTypeDef) { s.Types = append(s.Types, t); s.byN[t.Name] = t }
	for _, n := range c06Builtins {
		add(&gTypeDef{Kind: "scalar", Name: n})
	}
	add(&gTypeDef{Kind: "scalar", Name: "JSON"})
	add(&gTypeDef{Kind: "other", Name: "Query"})
	add(&gTypeDef{Kind: "other", Name: "Obj"})
	nEnum := 1 + r.Intn(2)
	for i := 0; i < nEnum; i++ {
		e := &gTypeDef{Kind: "enum", Name: fmt.Sprintf("E%d", i)}
		for j, n := 0, 1+r.Intn(3); j < n; j++ {
			e.Values = append(e.Values, [2]any{fmt.Sprintf("V%d", j), r.Intn(6) == 0})
		}
		if e.Values[0][1].(bool) {
			e.Values[0][1] = false
		}
		add(e)
	}
	nIn := 1 + r.Intn(4)
	names := append([]string{}, c06Builtins...)
	names = append(names, "JSON")
	for i := 0; i < nEnum; i++ {
		names = append(names, fmt.Sprintf("E%d", i))
	}
	for i := 0; i < nIn; i++ {
		names = append(names, fmt.Sprintf("In%d", i)) // recursive references allowed
	}
	for i := 0; i < nIn; i++ {
		t := &gTypeDef{Kind: "input", Name: fmt.Sprintf("In%d", i), OneOf: r.Intn(5) == 0}
		add(t)
		for j, n := 0, 1+r.Intn(4); j < n; j++ {
			f := &gField{Name: fmt.Sprintf("f%d", j)}
			if t.OneOf {
				f.Type = c06GenType(r, names, 0)
				if f.Type.K == "nonNull" { // oneOf fields must be nullable
					f.Type = f.Type.Of
				}
			} else {
				f.Type = c06GenType(r, names, 0)
			}
			t.Fields = append(t.Fields, f)
		}
	}
	// defaults (after all types exist); a non-null self-reference without default would be unsatisfiable but is legal to generate
	for _, t := range s.Types {
		if t.Kind != "input" || t.OneOf {
			continue
		}
		for _, f := range t.Fields {
			if r.Intn(3) == 0 {
				if lit, v, ok := c06DefaultFor(r, s, f.Type); ok {
					f.HasDefault, f.Default, f.DefaultVal = true, lit, v
				}
			}
		}
	}
	return s
}

// ---- value generator (type-directed, with corruption) --------------------------------------------

type c06ValGen struct {
	r       *rand.Rand
	s       *gSchema
	corrupt float64
	feats   map[string]bool
	// objects written by minimal so far: an input type with several non-null fields of its own type makes the minimal value grow
	// exponentially with the depth, so the filler stops (with null, a corruption like any other) after c06MinimalObjects objects
	filled int
}

const c06MinimalObjects = 300

var c06Absent = struct{}{}

func (g *c06ValGen) wrongKind(except string) any {
	opts := []any{json.Number("3"), "strv", true, []any{}, map[string]any{}, nil, json.Number("2.5")}
	for i := 0; i < 10; i++ {
		v := pick(g.r, opts)
		k := fmt.Sprintf("%T", v)
		if k != except {
			return v
		}
	}
	return nil
}

// returns a JSON value or c06Absent
func (g *c06ValGen) gen(t *gType, depth int, allowAbsent bool) any {
	r := g.r
	if r.Float64() < g.corrupt {
		g.feats["corrupt"] = true
		switch r.Intn(4) {
		case 0:
			return nil
		case 1:
			if allowAbsent {
				return c06Absent
			}
			return nil
		default:
			return g.wrongKind("")
		}
	}
	switch t.K {
	case "nonNull":
		return g.gen(t.Of, depth, false)
	case "list":
		if r.Intn(8) == 0 {
			return nil
		}
		if allowAbsent && r.Intn(8) == 0 {
			return c06Absent
		}
		n := r.Intn(3)
		if depth > 3 {
			n = 0
		}
		if r.Intn(12) == 0 { // single value instead of a list (list coercion case)
			g.feats["single_for_list"] = true
			v := g.gen(t.Of, depth+1, false)
			return v
		}
		out := []any{}
		for i := 0; i < n; i++ {
			out = append(out, g.gen(t.Of, depth+1, false))
		}
		return out
	}
	if r.Intn(8) == 0 {
		return nil
	}
	if allowAbsent && r.Intn(6) == 0 {
		return c06Absent
	}
	switch t.N {
	case "Int":
		return json.Number(pick(r, []string{"0", "1", "-5", "42", "2147483647", "1.5", "1e100", "2147483648", "1.0"}[:pickBias(r, 9, 5)]))
	case "Float":
		return json.Number(pick(r, []string{"0", "1.5", "-2.25", "1e10", "3"}))
	case "String":
		return pick(r, []string{"", "hello-world-1234", "secret-token-9876", "x"})
	case "Boolean":
		return r.Intn(2) == 0
	case "ID":
		if r.Intn(2) == 0 {
			return pick(r, []string{"id-abcdef", "1"})
		}
		return json.Number(pick(r, []string{"1", "12345678", "1.5"}[:pickBias(r, 3, 2)]))
	case "JSON":
		return pick(r, []any{json.Number("1"), "s", true, []any{json.Number("1")}, map[string]any{"k": "v"}})
	}
	d := g.s.find(t.N)
	if d == nil {
		return pick(r, []any{json.Number("1"), "s", map[string]any{}})
	}
	switch d.Kind {
	case "enum":
		if r.Intn(10) == 0 {
			g.feats["bad_enum"] = true
			return "NOPE_VALUE_1234"
		}
		v := pick(r, d.Values)
		if v[1].(bool) {
			g.feats["inaccessible_enum"] = true
		}
		return v[0].(string)
	case "input":
		obj := map[string]any{}
		if depth > 4 {
			// deep recursion: stop with whatever is minimal
			for _, f := range d.Fields {
				if f.Type.K == "nonNull" && !f.HasDefault {
					obj[f.Name] = g.minimal(f.Type, depth+1)
				}
			}
			return obj
		}
		if d.OneOf {
			k := 1
			if r.Intn(8) == 0 {
				k = r.Intn(3)
				g.feats["oneof_count"] = true
			}
			perm := r.Perm(len(d.Fields))
			for i := 0; i < k && i < len(perm); i++ {
				f := d.Fields[perm[i]]
				v := g.gen(f.Type, depth+1, false)
				if r.Intn(10) == 0 {
					v = nil
					g.feats["oneof_null"] = true
				}
				obj[f.Name] = v
			}
			return obj
		}
		for _, f := range d.Fields {
			v := g.gen(f.Type, depth+1, true)
			if v == c06Absent {
				continue
			}
			obj[f.Name] = v
		}
		if r.Intn(15) == 0 {
			obj["unknownField_1234"] = json.Number("1")
			g.feats["unknown_field"] = true
		}
		return obj
	default:
		return map[string]any{"x": json.Number("1")}
	}
}

func pickBias(r *rand.Rand, n, common int) int {
	if r.Intn(4) == 0 {
		return n
	}
	return common
}

func (g *c06ValGen) minimal(t *gType, depth int) any {
	switch t.K {
	case "nonNull":
		return g.minimal(t.Of, depth)
	case "list":
		return []any{}
	}
	switch t.N {
	case "Int", "Float", "JSON":
		return json.Number("1")
	case "String", "ID":
		return "s"
	case "Boolean":
		return true
	}
	d := g.s.find(t.N)
	if d != nil && d.Kind == "enum" {
		return d.Values[0][0].(string)
	}
	if d != nil && d.Kind == "input" && depth < 12 && g.filled < c06MinimalObjects {
		g.filled++
		obj := map[string]any{}
		if d.OneOf {
			obj[d.Fields[0].Name] = g.minimal(d.Fields[0].Type, depth+1)
			return obj
		}
		for _, f := range d.Fields {
			if f.Type.K == "nonNull" && !f.HasDefault {
				obj[f.Name] = g.minimal(f.Type, depth+1)
			}
		}
		return obj
	}
	return nil
}

// ---- independent spec: GraphQL input coercion of a JSON variable value ----------------------------

type c06Gaps struct {
	intAnyNumber    bool // Int accepts any JSON number (non-integral, out of 32-bit range)
	idAnyNumber     bool // ID accepts non-integer numbers
	nullWithDefault bool // explicit null (also inside lists) for a non-null input field that has a default
	undefinedType   bool // a type name that is not an input type is not checked
}

var intRe = regexp.MustCompile(`^-?(0|[1-9][0-9]*)$`)

func isInt32(n json.Number) bool {
	if !intRe.MatchString(string(n)) {
		return false
	}
	v, err := strconv.ParseInt(string(n), 10, 64)
	return err == nil && v >= -2147483648 && v <= 2147483647
}

// coercible: is `val` (present=false: absent) coercible to t?  listCoercion: accept a single value for a list type.
// fieldDefault: we are validating an input field that has a default (affects absent / null handling).
func (s *gSchema) coercible(t *gType, val any, present bool, g c06Gaps, listCoercion bool, fieldHasDefault bool, isField bool) bool {
	if t.K == "nonNull" {
		if !present {
			return isField && fieldHasDefault
		}
		if val == nil {
			return g.nullWithDefault && isField && fieldHasDefault
		}
		return s.coercible(t.Of, val, true, g, listCoercion, fieldHasDefault, isField)
	}
	if !present || val == nil {
		return true
	}
	if t.K == "list" {
		arr, ok := val.([]any)
		if !ok {
			if !listCoercion {
				return false
			}
			// single value: coerced to a one-element list (nested lists: wrapped at every level)
			return s.coercible(t.Of, val, true, g, listCoercion, fieldHasDefault, isField)
		}
		for _, x := range arr {
			if !s.coercible(t.Of, x, true, g, listCoercion, fieldHasDefault, isField) {
				return false
			}
		}
		return true
	}
	switch t.N {
	case "Int":
		n, ok := val.(json.Number)
		return ok && (g.intAnyNumber || isInt32(n))
	case "Float":
		_, ok := val.(json.Number)
		return ok
	case "String":
		_, ok := val.(string)
		return ok
	case "Boolean":
		_, ok := val.(bool)
		return ok
	case "ID":
		if _, ok := val.(string); ok {
			return true
		}
		n, ok := val.(json.Number)
		return ok && (g.idAnyNumber || intRe.MatchString(string(n)))
	}
	d := s.find(t.N)
	if d == nil {
		return g.undefinedType
	}
	switch d.Kind {
	case "scalar":
		return true
	case "enum":
		str, ok := val.(string)
		if !ok {
			return false
		}
		for _, v := range d.Values {
			if v[0].(string) == str {
				return !v[1].(bool)
			}
		}
		return false
	case "input":
		obj, ok := val.(map[string]any)
		if !ok {
			return false
		}
		for k := range obj {
			found := false
			for _, f := range d.Fields {
				if f.Name == k {
					found = true
				}
			}
			if !found {
				return false
			}
		}
		if d.OneOf {
			if len(obj) != 1 {
				return false
			}
			for _, v := range obj {
				if v == nil {
					return false
				}
			}
		}
		for _, f := range d.Fields {
			v, has := obj[f.Name]
			if !s.coercible(f.Type, v, has, g, listCoercion, f.HasDefault, true) {
				return false
			}
		}
		return true
	}
	return g.undefinedType // object/interface/union used as an input type
}

// ---- implementation side ---------------------------------------------------------------------------

type c06Verdict struct {
	OK   bool   `json:"ok"`
	Cls  string `json:"cls,omitempty"`
	Var  string `json:"var,omitempty"`
	Path any    `json:"path,omitempty"`
	Echo bool   `json:"echo,omitempty"`
	msg  string
}

var c06ClassRes = []struct {
	re  *regexp.Regexp
	cls string
}{
	{regexp.MustCompile(`of required type ".*" was not provided\.$`), ""},
	{regexp.MustCompile(`^Variable "\$[^"]*" of required type`), "required"},
	{regexp.MustCompile(`got invalid value null; Expected non-nullable type`), "invalidNull"},
	{regexp.MustCompile(`; Expected type "[^"]*" to be an object\.$`), "invalidObjectType"},
	{regexp.MustCompile(`; Field "[^"]*" of required type "[^"]*" was not provided\.$`), "requiredField"},
	{regexp.MustCompile(`; String cannot represent a non string value`), "nestedScalar:String"},
	{regexp.MustCompile(`; Int cannot represent non-integer value`), "nestedScalar:Int"},
	{regexp.MustCompile(`; Float cannot represent non numeric value`), "nestedScalar:Float"},
	{regexp.MustCompile(`; Boolean cannot represent a non boolean value`), "nestedScalar:Boolean"},
	{regexp.MustCompile(`; ID cannot represent a non-string and non-integer value`), "nestedScalar:ID"},
	{regexp.MustCompile(`; Got input type "`), "nestedInputList"},
	{regexp.MustCompile(`to be an input object\.$`), "nestedInput"},
	{regexp.MustCompile(`cannot represent non-string value`), "nestedEnum"},
	{regexp.MustCompile(`is not defined by type "`), "fieldNotDefined"},
	{regexp.MustCompile(`does not exist in "[^"]*" enum\.$`), "enumNotExist"},
	{regexp.MustCompile(`must have exactly one field provided, but (\d+) fields were provided\.$`), "oneOfCount"},
	{regexp.MustCompile(`value must be non-null\.$`), "oneOfNull"},
}
var c06VarRe = regexp.MustCompile(`^Variable "\$([^"]*)"`)
var c06PathRe = regexp.MustCompile(` at "([^"]*)"; [^;]*$`)

func c06Classify(msg string) (cls string, v string, path any) {
	for _, c := range c06ClassRes[1:] {
		if m := c.re.FindStringSubmatch(msg); m != nil {
			cls = c.cls
			if cls == "oneOfCount" {
				cls += ":" + m[1]
			}
			break
		}
	}
	if cls == "" {
		cls = "unclassified:" + msg
	}
	if m := c06VarRe.FindStringSubmatch(msg); m != nil {
		v = m[1]
	}
	if m := c06PathRe.FindStringSubmatch(msg); m != nil {
		path = m[1]
	}
	return
}

type c06Docs struct {
	op, def *ast.Document
}

func c06ParseDocs(sdl, op string) (*c06Docs, error) {
	def, rep := astparser.ParseGraphqlDocumentString(sdl)
	if rep.HasErrors() {
		return nil, fmt.Errorf("schema: %s", rep.Error())
	}
	if err := asttransform.MergeDefinitionWithBaseSchema(&def); err != nil {
		return nil, err
	}
	o, rep := astparser.ParseGraphqlDocumentString(op)
	if rep.HasErrors() {
		return nil, fmt.Errorf("operation: %s", rep.Error())
	}
	return &c06Docs{op: &o, def: &def}, nil
}

func c06Validate(d *c06Docs, vars []byte, remap map[string]string, disable bool) (v c06Verdict, panicked any) {
	defer func() {
		if p := recover(); p != nil {
			panicked = p
		}
	}()
	val := variablesvalidation.NewVariablesValidator(variablesvalidation.VariablesValidatorOptions{DisableExposingVariablesContent: disable})
	err := val.ValidateWithRemap(d.op, d.def, vars, remap)
	if err == nil {
		return c06Verdict{OK: true}, nil
	}
	v.msg = err.Error()
	v.Cls, v.Var, v.Path = c06Classify(v.msg)
	return
}

var c06RejectDocs *c06Docs

// c06ValidateReused validates a request that is always rejected and then the case, on ONE validator instance.
func c06ValidateReused(d *c06Docs, vars []byte, remap map[string]string) (v c06Verdict, panicked any) {
	defer func() {
		if p := recover(); p != nil {
			panicked = p
		}
	}()
	rd, err := c06ParseDocs("type Query { x: Int }", "query Q($zz: Int!) { x }")
	if err != nil {
		panic(err)
	}
	val := variablesvalidation.NewVariablesValidator(variablesvalidation.VariablesValidatorOptions{})
	if val.Validate(rd.op, rd.def, []byte(`{}`)) == nil {
		panic("harness: the always-rejected request was accepted")
	}
	err = val.ValidateWithRemap(d.op, d.def, vars, remap)
	if err == nil {
		return c06Verdict{OK: true}, nil
	}
	v.msg = err.Error()
	v.Cls, v.Var, v.Path = c06Classify(v.msg)
	return
}

// leaves of a JSON value that must not be echoed when exposing content is disabled
func c06Leaves(v any, out *[]string) {
	switch x := v.(type) {
	case string:
		if len(x) >= 6 {
			*out = append(*out, x)
		}
	case json.Number:
		if len(string(x)) >= 6 {
			*out = append(*out, string(x))
		}
	case []any:
		for _, e := range x {
			c06Leaves(e, out)
		}
	case map[string]any:
		for _, e := range x {
			c06Leaves(e, out)
		}
	}
}

// ---- one validator-level case --------------------------------------------------------------------

type c06Case struct {
	Schema *gSchema         `json:"schema"`
	SDL    string           `json:"sdl"`
	Op     string           `json:"operation"`
	Defs   []map[string]any `json:"defs"`
	Vars   json.RawMessage  `json:"variables"`
	Remap  [][2]string      `json:"remap"`
	varT   map[string]*gType
	varV   map[string]any
}

func c06GenCase(r *rand.Rand) (*c06Case, map[string]bool) {
	s := c06GenSchema(r)
	names := []string{}
	for _, t := range s.Types {
		if t.Kind != "other" {
			names = append(names, t.Name)
		}
	}
	if r.Intn(25) == 0 {
		names = append(names, "Obj") // an output type in input position (operation validation rejects it earlier)
	}
	feats := map[string]bool{}
	g := &c06ValGen{r: r, s: s, feats: feats}
	switch r.Intn(4) {
	case 0:
		g.corrupt = 0
	case 1:
		g.corrupt = 0.02
	default:
		g.corrupt = 0.08
	}
	c := &c06Case{Schema: s, varT: map[string]*gType{}, varV: map[string]any{}}
	nv := 1 + r.Intn(3)
	var defs []string
	vars := map[string]any{}
	remapOn := r.Intn(3) == 0
	remap := map[string]string{}
	for i := 0; i < nv; i++ {
		client := pick(r, []string{"input", "id", "filter", "v", "first"}) + strconv.Itoa(i)
		opName := client
		if remapOn {
			opName = string(rune('a' + i))
			remap[opName] = client
			c.Remap = append(c.Remap, [2]string{opName, client})
		}
		t := c06GenType(r, names, 0)
		defs = append(defs, "$"+opName+": "+t.String())
		c.Defs = append(c.Defs, map[string]any{"name": opName, "type": t})
		c.varT[client] = t
		v := g.gen(t, 0, true)
		if v != c06Absent {
			vars[client] = v
			c.varV[client] = v
		}
	}
	c.SDL = s.sdl(" x: Int")
	c.Op = "query Q(" + strings.Join(defs, ", ") + ") { x }"
	c.Vars, _ = json.Marshal(vars)
	return c, feats
}

func c06RemapMap(c *c06Case) map[string]string {
	if len(c.Remap) == 0 {
		return nil
	}
	m := map[string]string{}
	for _, p := range c.Remap {
		m[p[0]] = p[1]
	}
	return m
}

func c06Check(run *Run, c *c06Case, feats map[string]bool) {
	in := c
	docs, err := c06ParseDocs(c.SDL, c.Op)
	if err != nil {
		run.Violate(Violation{Kind: "correspondence", Clause: "harness: generated schema/operation does not parse", Input: in, Detail: err.Error()}, "")
		return
	}
	v, p := c06Validate(docs, c.Vars, c06RemapMap(c), false)
	if p != nil {
		run.Violate(Violation{Kind: "oracle", Clause: "no_panic", Input: in, Detail: fmt.Sprint(p)}, "")
		return
	}
	vd, p := c06Validate(docs, c.Vars, c06RemapMap(c), true)
	if p != nil {
		run.Violate(Violation{Kind: "oracle", Clause: "no_panic(disable)", Input: in, Detail: fmt.Sprint(p)}, "")
		return
	}
	// history independence: a validator instance that has just rejected another request gives the same verdict
	if vr, p := c06ValidateReused(docs, c.Vars, c06RemapMap(c)); p != nil {
		run.Violate(Violation{Kind: "oracle", Clause: "no_panic(reused validator)", Input: in, Detail: fmt.Sprint(p)}, "")
		return
	} else if vr.OK != v.OK || vr.msg != v.msg {
		run.Violate(Violation{Kind: "oracle", Clause: "verdict_depends_on_previous_request", Input: in,
			Impl: map[string]any{"fresh_validator": v.msg, "validator_reused_after_a_rejection": vr.msg}}, "")
	}
	fs := []string{}
	for f := range feats {
		fs = append(fs, f)
	}
	sort.Strings(fs)
	key := ""
	if !v.OK || len(fs) > 0 {
		key = string(c.Vars) + c.Op + c.SDL
	}
	if v.OK {
		fs = append(fs, "accepted")
	} else {
		fs = append(fs, "rejected", "cls:"+strings.SplitN(v.Cls, ":", 2)[0])
	}
	run.Count(key, fs...)
	// oracle 1: verdict does not depend on the option; no content echoed when disabled
	if v.OK != vd.OK || v.Cls != vd.Cls {
		run.Violate(Violation{Kind: "oracle", Clause: "option_changes_verdict", Input: in, Impl: map[string]any{"enabled": v.msg, "disabled": vd.msg}}, "")
	}
	if !vd.OK {
		var leaves []string
		for _, val := range c.varV {
			c06Leaves(val, &leaves)
		}
		for _, l := range leaves {
			if strings.Contains(vd.msg, l) {
				run.Violate(Violation{Kind: "oracle", Clause: "no_echo", Input: in, Detail: fmt.Sprintf("message %q contains variable content %q although exposing content is disabled", vd.msg, l)}, "")
				break
			}
		}
		// the rejection names the client-visible variable
		if _, ok := c.varT[vd.Var]; !ok {
			run.Violate(Violation{Kind: "oracle", Clause: "error_names_variable", Input: in, Detail: fmt.Sprintf("message %q does not name a declared (client-visible) variable", vd.msg)}, "")
		}
	}
	v.Echo = !v.OK && v.msg != vd.msg
	// oracle 2: accept <=> coercible (no list coercion at validator level: the pipeline coerces before)
	all := true
	strict := true
	lenient := c06Gaps{true, true, true, true}
	for name, t := range c.varT {
		val, present := c.varV[name]
		if !c.Schema.coercible(t, val, present, lenient, false, false, false) {
			all = false
		}
		if !c.Schema.coercible(t, val, present, c06Gaps{}, false, false, false) {
			strict = false
		}
	}
	switch {
	case strict && !v.OK:
		run.Violate(Violation{Kind: "oracle", Clause: "coercible_value_rejected", Input: in, Impl: v, Detail: v.msg}, "")
	case v.OK && !all:
		run.Violate(Violation{Kind: "oracle", Clause: "non_coercible_value_accepted", Input: in, Impl: v}, "")
	case v.OK && !strict:
		// inside the enumerated kind-level gaps: attribute to the finding(s)
		for _, g := range []struct {
			id string
			g  c06Gaps
		}{{"C06-int-accepts-any-number", c06Gaps{intAnyNumber: true}}, {"C06-id-accepts-float", c06Gaps{idAnyNumber: true}},
			{"C06-null-for-nonnull-field-with-default", c06Gaps{nullWithDefault: true}}, {"C06-undefined-type-unchecked", c06Gaps{undefinedType: true}}} {
			without := lenient
			switch g.id {
			case "C06-int-accepts-any-number":
				without.intAnyNumber = false
			case "C06-id-accepts-float":
				without.idAnyNumber = false
			case "C06-null-for-nonnull-field-with-default":
				without.nullWithDefault = false
			default:
				without.undefinedType = false
			}
			needs := false
			for name, t := range c.varT {
				val, present := c.varV[name]
				if !c.Schema.coercible(t, val, present, without, false, false, false) {
					needs = true
				}
			}
			if needs {
				run.Violate(Violation{Kind: "oracle", Clause: "non_coercible_value_accepted(" + g.id + ")", Input: in, Impl: v}, g.id)
			}
		}
	}
	// correspondence with the Lean model (verdict, class, variable, path, echo)
	for _, disable := range []bool{false, true} {
		impl := v
		if disable {
			impl = vd
			impl.Echo = false
		}
		m, err := run.Pool.Ask("c06.validate", map[string]any{"schema": c.Schema, "defs": c.Defs, "variables": c.Vars, "remap": c.Remap, "disable": disable})
		if err != nil {
			run.Violate(Violation{Kind: "correspondence", Clause: "driver", Input: in, Detail: err.Error()}, "")
			return
		}
		var implJ any = map[string]any{"ok": true}
		if !impl.OK {
			implJ = map[string]any{"ok": false, "cls": impl.Cls, "var": impl.Var, "path": impl.Path, "echo": impl.Echo}
		}
		if !sameJSON(implJ, m) {
			run.Violate(Violation{Kind: "correspondence", Clause: fmt.Sprintf("c06.validate model≠impl (disable=%v)", disable), Input: in, Impl: map[string]any{"verdict": impl, "message": impl.msg}, Model: decodeRaw(m)}, "")
			return
		}
	}
	if !v.OK {
		run.Sample(map[string]any{"operation": c.Op, "variables": string(c.Vars), "verdict": v.msg})
	}
}

// ---- pipeline-level case: normalisation (default extraction, list coercion, remap) + validation ----

func c06Pipeline(sdl, op string, vars []byte) (accepted bool, stage string, msg string, panicked any) {
	defer func() {
		if p := recover(); p != nil {
			panicked = p
			if os.Getenv("VERIF_DEBUG") != "" {
				fmt.Fprintf(os.Stderr, "%s\n", debug.Stack())
			}
		}
	}()
	schema, err := graphql.NewSchemaFromString(sdl)
	if err != nil {
		return false, "schema", err.Error(), nil
	}
	req := &graphql.Request{Query: op, Variables: vars, OperationName: "Q"}
	res, err := req.Normalize(schema, astnormalization.WithRemoveFragmentDefinitions(), astnormalization.WithRemoveUnusedVariables(), astnormalization.WithInlineFragmentSpreads())
	if err != nil {
		return false, "normalize", err.Error(), nil
	}
	if !res.Successful {
		return false, "normalize", res.Errors.Error(), nil
	}
	vr, err := req.ValidateForSchema(schema)
	if err != nil {
		return false, "validate", err.Error(), nil
	}
	if !vr.Valid {
		return false, "validate", vr.Errors.Error(), nil
	}
	res, err = req.Normalize(schema, astnormalization.WithExtractVariables())
	if err != nil || !res.Successful {
		return false, "normalize2", fmt.Sprint(err, res.Errors), nil
	}
	var rep operationreport.Report
	remap := astnormalization.NewVariablesMapper().NormalizeOperation(req.Document(), schema.Document(), &rep)
	if rep.HasErrors() {
		return false, "remap", rep.Error(), nil
	}
	if len(req.Variables) > 0 && req.Variables[0] == '{' {
		val := variablesvalidation.NewVariablesValidator(variablesvalidation.VariablesValidatorOptions{})
		if err := val.ValidateWithRemap(req.Document(), schema.Document(), req.Variables, remap); err != nil {
			return false, "variables", err.Error(), nil
		}
	}
	return true, "", "", nil
}

// the same request through ExecutionEngine.Execute, raw and after the caller has normalized it itself: whether the
// variables are judged must not depend on who normalized
func c06EngineVerdict(sdl, op string, vars []byte, prenormalize bool) (variablesRejected bool, msg string) {
	defer func() {
		if p := recover(); p != nil {
			variablesRejected, msg = false, fmt.Sprintf("PANIC: %v", p)
		}
	}()
	schema, err := graphql.NewSchemaFromString(sdl)
	if err != nil {
		return false, "schema: " + err.Error()
	}
	ctx, cancel := context.WithCancel(context.Background())
	defer cancel()
	eng, err := engine.NewExecutionEngine(ctx, abstractlogger.Noop{}, engine.NewConfiguration(schema), resolve.ResolverOptions{MaxConcurrency: 4})
	if err != nil {
		return false, "engine: " + err.Error()
	}
	req := &graphql.Request{Query: op, Variables: vars, OperationName: "Q"}
	if prenormalize {
		if res, err := req.Normalize(schema); err != nil || !res.Successful {
			return false, "normalize"
		}
	}
	w := graphql.NewEngineResultWriter()
	err = eng.Execute(ctx, req, &w)
	if err == nil {
		return false, ""
	}
	m := err.Error()
	return strings.HasPrefix(m, "Variable \"$") && (strings.Contains(m, "got invalid value") || strings.Contains(m, "was not provided")), m
}

func c06CheckPipeline(run *Run, r *rand.Rand) {
	s := c06GenSchema(r)
	names := []string{}
	for _, t := range s.Types {
		if t.Kind != "other" {
			names = append(names, t.Name)
		}
	}
	feats := map[string]bool{}
	g := &c06ValGen{r: r, s: s, feats: feats, corrupt: []float64{0, 0.03, 0.08}[r.Intn(3)]}
	nv := 1 + r.Intn(3)
	var defs, args, qfields []string
	vars := map[string]any{}
	type pv struct {
		t       *gType
		val     any
		present bool
		hasDef  bool
	}
	pvs := map[string]*pv{}
	for i := 0; i < nv; i++ {
		name := pick(r, []string{"input", "id", "filter", "v", "first"}) + strconv.Itoa(i)
		t := c06GenType(r, names, 0)
		def := "$" + name + ": " + t.String()
		p := &pv{t: t}
		if r.Intn(4) == 0 {
			if lit, dv, ok := c06DefaultFor(r, s, t); ok {
				def += " = " + lit
				p.hasDef = true
				_ = dv
			}
		}
		defs = append(defs, def)
		qfields = append(qfields, fmt.Sprintf(" q%d(a: %s): Int", i, t.String()))
		args = append(args, fmt.Sprintf(" q%d(a: $%s)", i, name))
		v := g.gen(t, 0, true)
		if v != c06Absent {
			vars[name] = v
			p.val, p.present = v, true
		}
		pvs[name] = p
	}
	sdl := s.sdl(strings.Join(qfields, ""))
	op := "query Q(" + strings.Join(defs, ", ") + ") {" + strings.Join(args, "") + " }"
	vb, _ := json.Marshal(vars)
	in := map[string]any{"sdl": sdl, "operation": op, "variables": json.RawMessage(vb)}
	acc, stage, msg, p := c06Pipeline(sdl, op, vb)
	if p != nil {
		run.Violate(Violation{Kind: "oracle", Clause: "pipeline_no_panic", Input: in, Detail: fmt.Sprint(p)}, "")
		return
	}
	if stage != "" {
		run.Feat("pipeline_rejected_at_" + stage)
	}
	if stage == "schema" || stage == "normalize" || stage == "validate" {
		// the generated operation is valid by construction and these stages do not look at variable values
		run.Violate(Violation{Kind: "oracle", Clause: "pipeline_stage_failed:" + stage, Input: in, Detail: msg}, "")
		return
	}
	lenient := c06Gaps{true, true, true, true}
	strict, all := true, true
	for _, p := range pvs {
		present := p.present
		val := p.val
		if !present && p.hasDef {
			continue // default applies; generated defaults are valid
		}
		if !s.coercible(p.t, val, present, c06Gaps{}, true, false, false) {
			strict = false
		}
		if !s.coercible(p.t, val, present, lenient, true, false, false) {
			all = false
		}
	}
	fs := []string{"pipeline"}
	if acc {
		fs = append(fs, "pipeline_accepted")
	} else {
		fs = append(fs, "pipeline_rejected")
	}
	key := ""
	if !acc || len(feats) > 0 {
		key = "P" + string(vb) + op + sdl
	}
	run.Count(key, fs...)
	if r.Intn(10) == 0 && (stage == "" || stage == "variables") {
		rawRej, rawMsg := c06EngineVerdict(sdl, op, vb, false)
		preRej, preMsg := c06EngineVerdict(sdl, op, vb, true)
		if !strings.HasPrefix(rawMsg, "PANIC") && !strings.HasPrefix(preMsg, "PANIC") && preMsg != "normalize" && rawRej != preRej {
			run.Violate(Violation{Kind: "oracle", Clause: "verdict_independent_of_who_normalized", Input: in, Impl: map[string]any{"raw": rawMsg, "prenormalized": preMsg},
				Detail: fmt.Sprintf("Execute on the raw request: variables rejected=%v (%s); on the request the caller normalized first: rejected=%v (%s)", rawRej, truncate(rawMsg, 200), preRej, truncate(preMsg, 200))}, "")
		}
		run.Feat("engine_raw_vs_prenormalized")
	}
	switch {
	case strict && !acc:
		known := ""
		run.Violate(Violation{Kind: "oracle", Clause: "pipeline_coercible_value_rejected", Input: in, Detail: msg}, known)
	case acc && !all:
		run.Violate(Violation{Kind: "oracle", Clause: "pipeline_non_coercible_value_accepted", Input: in}, "")
	case acc && !strict:
		run.Violate(Violation{Kind: "oracle", Clause: "pipeline_non_coercible_value_accepted(kind-level gaps)", Input: in}, "C06-kind-level-gaps-pipeline")
	}
}

func runC06(run *Run, replay string) Spec {
	spec := Spec{
		Level: "proof",
		Rule: "random input-type schemas (input objects incl. recursive/oneOf/defaults, enums with @inaccessible values, custom scalars, list/non-null wrappers to depth 3), 1-3 variable definitions, " +
			"type-directed variables JSON corrupted with probability 0/2/8% per node (null, absent, wrong kind, bad enum, unknown field, oneOf count/null, single value for list), optional variable remap; " +
			"stream A = VariablesValidator alone vs Lean model + spec oracle; stream B = normalisation+validation pipeline vs full coercion spec. non-trivial = rejected or generated with a corruption; distinct = distinct (schema, operation, variables)",
		TrustedBase: []string{"Lean 4 kernel", "axioms: propext, Classical.choice, Quot.sound only (audited)",
			"hand-written Lean model GqlVerif.Gql.Coerce tied to the Go validator by differential verdict/class/variable/path/echo comparison and regenerated error-class tables",
			"Go harness vh: generators, message classifier (regular expressions over the Go error text), independent Go coercion spec used as oracle", "astjson (JSON parsing of the variables)"},
		Assumptions: []string{"variable definitions use types defined in the schema (operation validation runs first)", "Upload scalar special cases are not generated", "JSON objects without duplicate keys"},
	}
	if replay != "" {
		b, err := os.ReadFile(replay)
		if err == nil {
			var f struct {
				Violation struct {
					Input json.RawMessage `json:"input"`
				} `json:"violation"`
			}
			if json.Unmarshal(b, &f) == nil {
				var c c06Case
				if json.Unmarshal(f.Violation.Input, &c) == nil && c.Schema != nil {
					c.Schema.byN = map[string]*gTypeDef{}
					for _, t := range c.Schema.Types {
						c.Schema.byN[t.Name] = t
					}
					c.varT, c.varV = map[string]*gType{}, map[string]any{}
					var vars map[string]any
					dec := json.NewDecoder(strings.NewReader(string(c.Vars)))
					dec.UseNumber()
					dec.Decode(&vars)
					rm := c06RemapMap(&c)
					for _, d := range c.Defs {
						name := d["name"].(string)
						tb, _ := json.Marshal(d["type"])
						var t gType
						json.Unmarshal(tb, &t)
						client := name
						if m, ok := rm[name]; ok {
							client = m
						}
						c.varT[client] = &t
						if v, ok := vars[client]; ok {
							c.varV[client] = v
						}
					}
					c06Check(run, &c, map[string]bool{"replay": true})
				}
			}
		}
		return spec
	}
	n := 30_000
	if run.Tier == "thorough" {
		n = 2_000_000
	}
	if one := os.Getenv("VERIF_C06_CASE"); one != "" { // debugging aid: one case of the stream, printed
		i, _ := strconv.Atoi(one)
		c, feats := c06GenCase(subRng(run.Seed, i))
		b, _ := json.Marshal(c)
		fmt.Fprintf(os.Stderr, "case %d: %s\n", i, b)
		c06Check(run, c, feats)
		return spec
	}
	parallelFor(n, 12, func(i int) {
		if run.NViolations() >= 20 {
			return
		}
		r := subRng(run.Seed, i)
		if i%4 == 3 {
			c06CheckPipeline(run, r)
			return
		}
		c, feats := c06GenCase(r)
		c06Check(run, c, feats)
	})
	return spec
}
