package main

// C15 — argument values survive literal→JSON conversion, variable extraction and remapping unchanged.
//
// Stream A (literal → JSON): type-directed literal trees in every spelling class are printed to GraphQL source,
// parsed by the real parser and converted with ast.Document.ValueToJSON; the bytes must equal the Lean model's
// (GqlVerif.Gql.Value.writeJSON) and, independently, be valid JSON denoting the GraphQL value of the literal.
// Stream B (pipeline): the same literals as arguments of an operation against a schema, through the engine's
// normalisation steps (variable extraction, default injection, remapping): the variables object exposed afterwards
// must be valid JSON, every argument must be bound to a variable whose JSON value denotes the literal's GraphQL
// value, omitted client variables stay omitted, explicit nulls stay null.

import (
	"bytes"
	"context"
	"encoding/json"
	"fmt"
	"math/big"
	"math/rand"
	"os"
	"regexp"
	"sort"
	"strings"
	"sync"
	"time"
	"unicode/utf8"

	"github.com/wundergraph/graphql-go-tools/execution/graphql"
	"github.com/wundergraph/graphql-go-tools/v2/pkg/ast"
	"github.com/wundergraph/graphql-go-tools/v2/pkg/astnormalization"
	"github.com/wundergraph/graphql-go-tools/v2/pkg/astparser"
	"github.com/wundergraph/graphql-go-tools/v2/pkg/engine/datasource/graphql_datasource"
	"github.com/wundergraph/graphql-go-tools/v2/pkg/operationreport"
)

func init() { props["C15"] = runC15 }

// ---- literal trees ------------------------------------------------------------------------------------------

type c15Lit struct {
	Kind    string     `json:"k"`             // null bool int float enum str block list obj var
	B       bool       `json:"b,omitempty"`   // bool value / negative sign
	Raw     string     `json:"raw,omitempty"` // digits of a number, enum name, variable name
	Content string     `json:"c,omitempty"`   // hex of the raw bytes between the quotes (str) / between the triple quotes (block)
	Items   []*c15Lit  `json:"items,omitempty"`
	Fields  []c15Field `json:"fields,omitempty"`
	val     any        // the GraphQL value this literal denotes (strings: Go string of the decoded bytes)
	class   map[string]bool
}

type c15Field struct {
	Name string  `json:"n"`
	V    *c15Lit `json:"v"`
}

type c15Num string // a number, compared by numeric value

type c15Absent struct{}

func (l *c15Lit) src() string {
	switch l.Kind {
	case "null":
		return "null"
	case "bool":
		if l.B {
			return "true"
		}
		return "false"
	case "int", "float":
		if l.B {
			return "-" + l.Raw
		}
		return l.Raw
	case "enum":
		return l.Raw
	case "str":
		return `"` + string(unhex(l.Content)) + `"`
	case "block":
		return `"""` + string(unhex(l.Content)) + `"""`
	case "list":
		parts := make([]string, len(l.Items))
		for i, x := range l.Items {
			parts[i] = x.src()
		}
		return "[" + strings.Join(parts, ", ") + "]"
	case "obj":
		parts := make([]string, len(l.Fields))
		for i, f := range l.Fields {
			parts[i] = f.Name + ": " + f.V.src()
		}
		return "{" + strings.Join(parts, ", ") + "}"
	case "var":
		return "$" + l.Raw
	}
	return "?"
}

// value under a variables environment (name -> JSON text; absent = omitted)
func (l *c15Lit) value(env map[string]string, inObject bool) any {
	switch l.Kind {
	case "null":
		return nil
	case "bool":
		return l.B
	case "int", "float":
		if l.B {
			return c15Num("-" + l.Raw)
		}
		return c15Num(l.Raw)
	case "enum":
		return l.Raw
	case "str", "block":
		return l.val
	case "list":
		out := make([]any, len(l.Items))
		for i, x := range l.Items {
			v := x.value(env, false)
			if _, ok := v.(c15Absent); ok {
				v = nil // an omitted variable inside a list is null
			}
			out[i] = v
		}
		return out
	case "obj":
		out := map[string]any{}
		for _, f := range l.Fields {
			v := f.V.value(env, true)
			if _, ok := v.(c15Absent); ok {
				continue // an omitted variable leaves the input field out
			}
			out[f.Name] = v
		}
		return out
	case "var":
		txt, ok := env[l.Raw]
		if !ok {
			return c15Absent{}
		}
		return c15Decode([]byte(txt))
	}
	return nil
}

// c15Decode decodes JSON into the comparison domain (numbers by value)
func c15Decode(b []byte) any {
	dec := json.NewDecoder(bytes.NewReader(b))
	dec.UseNumber()
	var v any
	if err := dec.Decode(&v); err != nil {
		return fmt.Sprintf("<invalid json: %v>", err)
	}
	var conv func(any) any
	conv = func(x any) any {
		switch t := x.(type) {
		case json.Number:
			return c15Num(t.String())
		case []any:
			for i := range t {
				t[i] = conv(t[i])
			}
			return t
		case map[string]any:
			for k := range t {
				t[k] = conv(t[k])
			}
			return t
		}
		return x
	}
	return conv(v)
}

func c15Equal(a, b any) bool {
	switch x := a.(type) {
	case c15Num:
		y, ok := b.(c15Num)
		if !ok {
			return false
		}
		ra, ok1 := new(big.Rat).SetString(string(x))
		rb, ok2 := new(big.Rat).SetString(string(y))
		return ok1 && ok2 && ra.Cmp(rb) == 0
	case []any:
		y, ok := b.([]any)
		if !ok || len(x) != len(y) {
			return false
		}
		for i := range x {
			if !c15Equal(x[i], y[i]) {
				return false
			}
		}
		return true
	case map[string]any:
		y, ok := b.(map[string]any)
		if !ok || len(x) != len(y) {
			return false
		}
		for k, v := range x {
			w, ok := y[k]
			if !ok || !c15Equal(v, w) {
				return false
			}
		}
		return true
	case nil:
		return b == nil
	}
	return a == b
}

// ---- generator ------------------------------------------------------------------------------------------------

type c15Gen struct {
	r     *rand.Rand
	feats map[string]bool
	env   map[string]string // variables the client supplies (JSON text, compact)
	decl  map[string]string // variable name -> declared type
	nvar  int
}

const c15SDL = `
schema { query: Query }
enum Color { RED GREEN BLUE }
input In { s: String i: Int f: Float b: Boolean e: Color id: ID l: [String] ll: [[Int]] o: In lo: [In] }
input Def { a: String = "dflt" n: Int = 7 bs: String = """block default""" bq: String = """say "hi" \ there""" req: Int }
type Query {
  f(s: String, i: Int, fl: Float, b: Boolean, e: Color, id: ID, l: [String], ll: [[Int]], o: In, lo: [In], li: [Int], le: [Color]): String
  g(d: Def, s: String = """arg block default""", q: String = "plain \" q"): String
}
`

// a raw single-line string body and the value it denotes
func (g *c15Gen) strBody() (raw []byte, val string) {
	n := g.r.Intn(6)
	var vb []byte
	for i := 0; i < n; i++ {
		switch k := g.r.Intn(20); {
		case k < 8:
			c := byte(0x20 + g.r.Intn(0x5f))
			if c == '"' || c == '\\' {
				c = 'x'
			}
			raw = append(raw, c)
			vb = append(vb, c)
		case k < 10:
			s := pick(g.r, []string{"é", "ß", "漢", "😀", " ", " ", "ﬁ"})
			raw = append(raw, s...)
			vb = append(vb, s...)
			g.feats["str:utf8"] = true
		case k < 14:
			e := pick(g.r, []string{`\"`, `\\`, `\/`, `\b`, `\f`, `\n`, `\r`, `\t`})
			raw = append(raw, e...)
			vb = append(vb, map[string]string{`\"`: `"`, `\\`: `\`, `\/`: `/`, `\b`: "\b", `\f`: "\f", `\n`: "\n", `\r`: "\r", `\t`: "\t"}[e]...)
			g.feats["str:escape"] = true
		case k < 16:
			cp := pick(g.r, []rune{0x41, 0xe9, 0x20ac, 0x0, 0x1f, 0x7f, 0xffff, 0x2028})
			e := fmt.Sprintf(`\u%04X`, cp)
			if g.r.Intn(2) == 0 {
				e = strings.ToLower(e)
			}
			raw = append(raw, e...)
			vb = utf8.AppendRune(vb, cp)
			g.feats["str:uXXXX"] = true
		case k < 17:
			raw = append(raw, `\uD83D\uDE00`...)
			vb = append(vb, "😀"...)
			g.feats["str:surrogates"] = true
		case k < 18:
			raw = append(raw, '\t')
			vb = append(vb, '\t')
			g.feats["str:rawTAB"] = true
		case k < 19:
			raw = append(raw, `\u{1F600}`...)
			vb = append(vb, "😀"...)
			g.feats["str:ubrace"] = true
		default:
			raw = append(raw, ' ', ' ')
			vb = append(vb, ' ', ' ')
		}
	}
	return raw, string(vb)
}

// c15BlockValue is the GraphQL spec's BlockStringValue() of a raw block string body
func c15BlockValue(raw string) string {
	raw = strings.ReplaceAll(raw, "\r\n", "\n")
	raw = strings.ReplaceAll(raw, "\r", "\n")
	lines := strings.Split(raw, "\n")
	ws := func(s string) int {
		n := 0
		for n < len(s) && (s[n] == ' ' || s[n] == '\t') {
			n++
		}
		return n
	}
	common := -1
	for i, l := range lines {
		if i == 0 {
			continue
		}
		ind := ws(l)
		if ind < len(l) && (common == -1 || ind < common) {
			common = ind
		}
	}
	if common > 0 {
		for i := 1; i < len(lines); i++ {
			if len(lines[i]) >= common {
				lines[i] = lines[i][common:]
			} else {
				lines[i] = ""
			}
		}
	}
	for len(lines) > 0 && ws(lines[0]) == len(lines[0]) {
		lines = lines[1:]
	}
	for len(lines) > 0 && ws(lines[len(lines)-1]) == len(lines[len(lines)-1]) {
		lines = lines[:len(lines)-1]
	}
	return strings.ReplaceAll(strings.Join(lines, "\n"), `\"""`, `"""`)
}

func (g *c15Gen) blockBody() string {
	var sb strings.Builder
	n := 1 + g.r.Intn(5)
	for i := 0; i < n; i++ {
		switch k := g.r.Intn(16); {
		case k < 6:
			sb.WriteString(pick(g.r, []string{"a", "bc", "x y", "é", "漢字", "end.", "#c", "{}"}))
		case k < 9:
			sb.WriteString(pick(g.r, []string{"\n", "\n  ", "\n    ", "\n\t", "\r\n  ", "\n\n"}))
			g.feats["block:lines"] = true
		case k < 11:
			sb.WriteString(pick(g.r, []string{" ", "  ", "\t"}))
		case k < 12:
			sb.WriteString(`\`)
			sb.WriteString(pick(g.r, []string{"n", "t", " ", "u0041"}))
			g.feats["block:backslash"] = true
		case k < 13:
			sb.WriteString(pick(g.r, []string{` " `, `a"b`, ` "" `}))
			g.feats["block:quote"] = true
		case k < 14:
			sb.WriteString(`\"""`)
			g.feats["block:escapedTriple"] = true
		default:
			sb.WriteString(pick(g.r, []string{"z", "1", "-"}))
		}
	}
	s := sb.String()
	// a body must not end in a quote or backslash (it would merge with the closing delimiter)
	for strings.HasSuffix(s, `"`) || strings.HasSuffix(s, `\`) {
		s += " "
	}
	if strings.Contains(strings.ReplaceAll(s, `\"""`, ""), `"""`) {
		s = strings.ReplaceAll(s, `"""`, `" "`)
	}
	return s
}

func (g *c15Gen) variable(typ string) *c15Lit {
	name := fmt.Sprintf("v%d", g.nvar)
	g.nvar++
	g.decl[name] = typ
	switch g.r.Intn(4) {
	case 0:
		g.feats["var:omitted"] = true // the client does not supply it
	case 1:
		g.env[name] = "null"
		g.feats["var:null"] = true
	default:
		g.env[name] = g.jsonFor(typ, 0)
		g.feats["var:value"] = true
	}
	return &c15Lit{Kind: "var", Raw: name}
}

// a JSON value (compact text) for a variable of the given type
func (g *c15Gen) jsonFor(typ string, depth int) string {
	if strings.HasPrefix(typ, "[") {
		inner := typ[1 : len(typ)-1]
		n := g.r.Intn(3)
		parts := make([]string, n)
		for i := range parts {
			parts[i] = g.jsonFor(inner, depth+1)
		}
		return "[" + strings.Join(parts, ",") + "]"
	}
	switch typ {
	case "String", "ID":
		return pick(g.r, []string{`"x"`, `""`, `"a\"b"`, `"é"`, `"é\n"`, `"tab\there"`, `"😀"`})
	case "Int":
		return pick(g.r, []string{"0", "-1", "42", "2147483647"})
	case "Float":
		return pick(g.r, []string{"1.5", "-0.0", "1e3", "2", "1.25E-2"})
	case "Boolean":
		return pick(g.r, []string{"true", "false"})
	case "Color":
		return pick(g.r, []string{`"RED"`, `"BLUE"`})
	case "In":
		if depth > 1 {
			return "{}"
		}
		return pick(g.r, []string{`{}`, `{"s":"v"}`, `{"i":1,"l":["a",null]}`, `{"o":{"e":"GREEN"},"ll":[[1],[]]}`, `{"s":null}`})
	}
	return "null"
}

func (g *c15Gen) lit(typ string, depth int, allowVar bool) *c15Lit {
	if allowVar && g.r.Intn(7) == 0 {
		return g.variable(typ)
	}
	if g.r.Intn(12) == 0 {
		g.feats["lit:null"] = true
		return &c15Lit{Kind: "null"}
	}
	if strings.HasPrefix(typ, "[") {
		inner := typ[1 : len(typ)-1]
		n := g.r.Intn(4)
		if depth > 2 {
			n = 0
		}
		l := &c15Lit{Kind: "list"}
		for i := 0; i < n; i++ {
			l.Items = append(l.Items, g.lit(inner, depth+1, allowVar))
		}
		g.feats["lit:list"] = true
		return l
	}
	switch typ {
	case "String", "ID":
		if typ == "ID" && g.r.Intn(2) == 0 {
			return &c15Lit{Kind: "int", Raw: pick(g.r, []string{"0", "7", "123456789012345678901234567890"})}
		}
		if g.r.Intn(4) == 0 {
			body := g.blockBody()
			g.feats["lit:block"] = true
			return &c15Lit{Kind: "block", Content: hx([]byte(body)), val: c15BlockValue(body)}
		}
		raw, val := g.strBody()
		g.feats["lit:str"] = true
		return &c15Lit{Kind: "str", Content: hx(raw), val: val}
	case "Int":
		g.feats["lit:int"] = true
		return &c15Lit{Kind: "int", B: g.r.Intn(3) == 0, Raw: pick(g.r, []string{"0", "1", "42", "2147483647", "9007199254740993", "123456789012345678901234567890"})}
	case "Float":
		g.feats["lit:float"] = true
		if g.r.Intn(4) == 0 {
			return &c15Lit{Kind: "int", B: g.r.Intn(3) == 0, Raw: pick(g.r, []string{"0", "3"})}
		}
		return &c15Lit{Kind: "float", B: g.r.Intn(3) == 0, Raw: pick(g.r, []string{"0.0", "1.5", "1.50", "1e10", "1E-5", "6.02e+23", "0.1e0", "123.456e7", "1.0000000000000000000001"})}
	case "Boolean":
		return &c15Lit{Kind: "bool", B: g.r.Intn(2) == 0}
	case "Color":
		g.feats["lit:enum"] = true
		return &c15Lit{Kind: "enum", Raw: pick(g.r, []string{"RED", "GREEN", "BLUE"})}
	case "In":
		l := &c15Lit{Kind: "obj"}
		g.feats["lit:obj"] = true
		if depth > 2 {
			return l
		}
		fields := [][2]string{{"s", "String"}, {"i", "Int"}, {"f", "Float"}, {"b", "Boolean"}, {"e", "Color"}, {"id", "ID"}, {"l", "[String]"}, {"ll", "[[Int]]"}, {"o", "In"}, {"lo", "[In]"}}
		g.r.Shuffle(len(fields), func(i, j int) { fields[i], fields[j] = fields[j], fields[i] })
		n := g.r.Intn(4)
		for _, f := range fields[:n] {
			l.Fields = append(l.Fields, c15Field{Name: f[0], V: g.lit(f[1], depth+1, allowVar)})
		}
		return l
	}
	return &c15Lit{Kind: "null"}
}

var c15ArgTypes = [][2]string{{"s", "String"}, {"i", "Int"}, {"fl", "Float"}, {"b", "Boolean"}, {"e", "Color"}, {"id", "ID"}, {"l", "[String]"}, {"ll", "[[Int]]"}, {"o", "In"}, {"lo", "[In]"}, {"li", "[Int]"}, {"le", "[Color]"}}

type c15Case struct {
	Args []c15Field        `json:"args"`
	Env  map[string]string `json:"env"`
	Decl map[string]string `json:"decl"`
}

func c15GenCase(r *rand.Rand) (*c15Case, map[string]bool) {
	g := &c15Gen{r: r, feats: map[string]bool{}, env: map[string]string{}, decl: map[string]string{}}
	c := &c15Case{}
	n := 1 + r.Intn(3)
	perm := r.Perm(len(c15ArgTypes))
	for _, k := range perm[:n] {
		a := c15ArgTypes[k]
		c.Args = append(c.Args, c15Field{Name: a[0], V: g.lit(a[1], 0, true)})
	}
	c.Env, c.Decl = g.env, g.decl
	return c, g.feats
}

func (c *c15Case) operation() (string, []byte) {
	var decls []string
	names := make([]string, 0, len(c.Decl))
	for n := range c.Decl {
		names = append(names, n)
	}
	sort.Strings(names)
	for _, n := range names {
		decls = append(decls, "$"+n+": "+c.Decl[n])
	}
	var args []string
	for _, a := range c.Args {
		args = append(args, a.Name+": "+a.V.src())
	}
	op := "query Q"
	if len(decls) > 0 {
		op += "(" + strings.Join(decls, ", ") + ")"
	}
	op += " { f(" + strings.Join(args, ", ") + ") }"
	var vars []string
	for _, n := range names {
		if v, ok := c.Env[n]; ok {
			vars = append(vars, fmt.Sprintf("%q:%s", n, v))
		}
	}
	return op, []byte("{" + strings.Join(vars, ",") + "}")
}

// ---- classes of literals with known / repaired defects ------------------------------------------------------

func c15HasClass(l *c15Lit, pred func(*c15Lit) bool) bool {
	if pred(l) {
		return true
	}
	for _, x := range l.Items {
		if c15HasClass(x, pred) {
			return true
		}
	}
	for _, f := range l.Fields {
		if c15HasClass(f.V, pred) {
			return true
		}
	}
	return false
}

func c15KnownClass(l *c15Lit) string {
	if c15HasClass(l, func(x *c15Lit) bool { return x.Kind == "str" && bytes.Contains(unhex(x.Content), []byte(`\u{`)) }) {
		return "C15-braced-unicode-escape"
	}
	if c15HasClass(l, func(x *c15Lit) bool {
		if x.Kind != "block" {
			return false
		}
		b := unhex(x.Content)
		// the lexer's content trimming does not treat quotes and backslashes as content (C05 finding): a body that
		// starts or ends with one (after/before whitespace), or has a whitespace margin and contains one, is cut wrongly
		t := bytes.Trim(b, " \t\r\n")
		if len(t) == 0 {
			return false
		}
		edge := t[0] == '"' || t[0] == '\\' || t[len(t)-1] == '"' || t[len(t)-1] == '\\'
		return edge || (len(t) != len(b) && bytes.ContainsAny(b, `"\`))
	}) {
		return "C15-block-string-quote-whitespace"
	}
	return ""
}

// ---- streams ------------------------------------------------------------------------------------------------

func c15StreamA(run *Run, c *c15Case, feats map[string]bool) {
	op, vars := c.operation()
	doc, rep := astparser.ParseGraphqlDocumentString(op)
	in := map[string]any{"operation": op, "variables": string(vars), "case": c}
	if rep.HasErrors() {
		run.Violate(Violation{Kind: "oracle", Clause: "literal_parses", Input: in, Detail: rep.Error()}, "")
		return
	}
	doc.Input.Variables = vars
	type item struct {
		Lit  *c15Lit `json:"lit"`
		Impl string  `json:"impl"`
	}
	var items []item
	fieldRef := -1
	for i := range doc.Fields {
		if doc.FieldNameString(i) == "f" {
			fieldRef = i
		}
	}
	if fieldRef < 0 {
		return
	}
	for k, argRef := range doc.Fields[fieldRef].Arguments.Refs {
		if k >= len(c.Args) {
			break
		}
		v := doc.Arguments[argRef].Value
		b, err := doc.ValueToJSON(v)
		if err != nil {
			run.Violate(Violation{Kind: "oracle", Clause: "value_to_json_total", Input: in, Detail: err.Error()}, "")
			continue
		}
		lit := c.Args[k].V
		items = append(items, item{lit, hx(b)})
		// oracle: valid JSON denoting the literal's value
		want := lit.value(c.Env, false)
		if _, ok := want.(c15Absent); ok {
			want = nil // a top-level omitted variable is rendered as null by ValueToJSON (it is not used for those)
		}
		known := c15KnownClass(lit)
		if !json.Valid(b) {
			run.Violate(Violation{Kind: "oracle", Clause: "json_valid", Input: in, Impl: string(b),
				Detail: fmt.Sprintf("argument %s: ValueToJSON(%s) = %q is not valid JSON", c.Args[k].Name, lit.src(), b)}, known)
			continue
		}
		if got := c15Decode(b); !c15Equal(got, want) {
			run.Violate(Violation{Kind: "oracle", Clause: "same_value", Input: in, Impl: string(b),
				Detail: fmt.Sprintf("argument %s: literal %s denotes %s but its JSON %q denotes %s", c.Args[k].Name, lit.src(), jsonStr(want), b, jsonStr(got))}, known)
		}
	}
	// correspondence with the Lean model, byte for byte (block strings: by value, the encoder is Go's)
	envList := [][2]string{}
	for n, v := range c.Env {
		envList = append(envList, [2]string{n, v})
	}
	sort.Slice(envList, func(i, j int) bool { return envList[i][0] < envList[j][0] })
	raw, err := run.Pool.Ask("c15.write", map[string]any{"env": envList, "lits": func() []*c15Lit {
		out := []*c15Lit{}
		for _, it := range items {
			out = append(out, it.Lit)
		}
		return out
	}()})
	if err != nil {
		run.Violate(Violation{Kind: "correspondence", Clause: "driver", Input: in, Detail: err.Error()}, "")
		return
	}
	var m struct {
		Out   []string `json:"out"`
		Clean []bool   `json:"clean"`
		Agree []bool   `json:"agree"`
	}
	_ = json.Unmarshal(raw, &m)
	for k, it := range items {
		if k >= len(m.Out) {
			break
		}
		hasBlock := c15HasClass(it.Lit, func(x *c15Lit) bool { return x.Kind == "block" })
		if hasBlock {
			continue
		}
		if m.Out[k] != it.Impl {
			run.Violate(Violation{Kind: "correspondence", Clause: "write_json_bytes", Input: in, Impl: string(unhex(it.Impl)), Model: string(unhex(m.Out[k])),
				Detail: fmt.Sprintf("ValueToJSON(%s): implementation %q, model %q", it.Lit.src(), unhex(it.Impl), unhex(m.Out[k]))}, "")
		}
		if k < len(m.Clean) && m.Clean[k] && k < len(m.Agree) && !m.Agree[k] {
			run.Violate(Violation{Kind: "theorem", Clause: "lit_json_value", Input: in, Detail: "the model's JSON tree value differs from the literal's value on a clean literal: theorem instance fails"}, "")
		}
	}
	for f := range feats {
		run.Feat(f)
	}
}

type c15BResult struct {
	Stage string
	Msg   string
	Vars  []byte
	Doc   *ast.Document
	Remap map[string]string // variable name in the remapped operation -> name in the variables object
}

func c15Normalize(sdl, op string, vars []byte) (res c15BResult, panicked any) {
	defer func() {
		if p := recover(); p != nil {
			panicked = p
		}
	}()
	schema, err := graphql.NewSchemaFromString(sdl)
	if err != nil {
		return c15BResult{Stage: "schema", Msg: err.Error()}, nil
	}
	req := &graphql.Request{Query: op, Variables: vars, OperationName: "Q"}
	r, err := req.Normalize(schema, astnormalization.WithRemoveFragmentDefinitions(), astnormalization.WithRemoveUnusedVariables(), astnormalization.WithInlineFragmentSpreads())
	if err != nil || !r.Successful {
		return c15BResult{Stage: "normalize", Msg: fmt.Sprint(err, r.Errors)}, nil
	}
	vr, err := req.ValidateForSchema(schema)
	if err != nil || !vr.Valid {
		return c15BResult{Stage: "validate", Msg: fmt.Sprint(err, vr.Errors)}, nil
	}
	r, err = req.Normalize(schema, astnormalization.WithExtractVariables())
	if err != nil || !r.Successful {
		return c15BResult{Stage: "normalize2", Msg: fmt.Sprint(err, r.Errors)}, nil
	}
	var rep operationreport.Report
	remap := astnormalization.NewVariablesMapper().NormalizeOperation(req.Document(), schema.Document(), &rep)
	if rep.HasErrors() {
		return c15BResult{Stage: "remap", Msg: rep.Error()}, nil
	}
	return c15BResult{Vars: req.Document().Input.Variables, Doc: req.Document(), Remap: remap}, nil
}

// argument name -> variable name bound to it in the normalised operation
func c15Bindings(doc *ast.Document, field string, remap map[string]string) (map[string]string, map[string]string) {
	bind := map[string]string{}
	other := map[string]string{}
	for i := range doc.Fields {
		if doc.FieldNameString(i) != field {
			continue
		}
		for _, argRef := range doc.Fields[i].Arguments.Refs {
			name := doc.ArgumentNameString(argRef)
			v := doc.Arguments[argRef].Value
			if v.Kind == ast.ValueKindVariable {
				vn := doc.VariableValueNameString(v.Ref)
				if orig, ok := remap[vn]; ok {
					vn = orig
				}
				bind[name] = vn
			} else {
				b, _ := doc.ValueToJSON(v)
				other[name] = string(b)
			}
		}
	}
	return bind, other
}

func c15StreamB(run *Run, c *c15Case) {
	op, vars := c.operation()
	in := map[string]any{"operation": op, "variables": string(vars), "case": c}
	res, p := c15Normalize(c15SDL, op, vars)
	if p != nil {
		run.Violate(Violation{Kind: "oracle", Clause: "no_panic", Input: in, Detail: fmt.Sprint(p)}, "")
		return
	}
	known := ""
	for _, a := range c.Args {
		if k := c15KnownClass(a.V); k != "" {
			known = k
		}
	}
	if res.Stage != "" {
		// the operation is valid by construction except for values the coercion rules reject (big ints, null in
		// non-null positions do not occur here): a rejection is only counted
		run.Feat("B:rejected:" + res.Stage)
		if os.Getenv("VERIF_DEBUG") != "" {
			fmt.Fprintln(os.Stderr, "rejected", res.Stage, res.Msg, op, string(vars))
		}
		return
	}
	if !json.Valid(res.Vars) {
		run.Violate(Violation{Kind: "oracle", Clause: "variables_valid_json", Input: in, Impl: string(res.Vars),
			Detail: fmt.Sprintf("the variables object after normalisation is not valid JSON: %q", res.Vars)}, known)
		return
	}
	got, _ := c15Decode(res.Vars).(map[string]any)
	bind, other := c15Bindings(res.Doc, "f", res.Remap)
	for _, a := range c.Args {
		want := a.V.value(c.Env, false)
		vname, ok := bind[a.Name]
		if !ok {
			run.Violate(Violation{Kind: "oracle", Clause: "argument_extracted", Input: in, Impl: string(res.Vars),
				Detail: fmt.Sprintf("argument %s is not bound to a variable after extraction (value %s)", a.Name, other[a.Name])}, known)
			continue
		}
		gv, present := got[vname]
		if _, absent := want.(c15Absent); absent {
			if present {
				run.Violate(Violation{Kind: "oracle", Clause: "absent_stays_absent", Input: in, Impl: string(res.Vars),
					Detail: fmt.Sprintf("argument %s: the client omitted $%s, the variables object now has %s = %s", a.Name, a.V.Raw, vname, jsonStr(gv))}, known)
			}
			continue
		}
		if !present {
			run.Violate(Violation{Kind: "oracle", Clause: "value_present", Input: in, Impl: string(res.Vars),
				Detail: fmt.Sprintf("argument %s: variable %s is missing from the variables object %s", a.Name, vname, res.Vars)}, known)
			continue
		}
		if !c15Equal(gv, want) {
			run.Violate(Violation{Kind: "oracle", Clause: "same_value_after_extraction", Input: in, Impl: string(res.Vars),
				Detail: fmt.Sprintf("argument %s: supplied %s denotes %s, the variables object has %s = %s", a.Name, a.V.src(), jsonStr(want), vname, jsonStr(gv))}, known)
		}
	}
}

// defaults: omitted input fields and arguments get their schema defaults; the injected values must be the
// defaults' GraphQL values
func c15StreamDefaults(run *Run, r *rand.Rand) {
	type dcase struct {
		op   string
		vars string
		arg  string
		want any
	}
	blockDef := "block default"
	bq := `say "hi" \ there`
	cases := []dcase{
		{`query Q { g(d: {req: 1}) }`, `{}`, "d", map[string]any{"req": c15Num("1"), "a": "dflt", "n": c15Num("7"), "bs": blockDef, "bq": bq}},
		{`query Q($d: Def) { g(d: $d) }`, `{"d":{"req":2}}`, "d", map[string]any{"req": c15Num("2"), "a": "dflt", "n": c15Num("7"), "bs": blockDef, "bq": bq}},
		{`query Q($d: Def = {req: 3}) { g(d: $d) }`, `{}`, "d", map[string]any{"req": c15Num("3"), "a": "dflt", "n": c15Num("7"), "bs": blockDef, "bq": bq}},
		{`query Q($s: String = """op block""") { g(s: $s) }`, `{}`, "s", "op block"},
		{`query Q($s: String = """  two
    lines  """) { g(s: $s) }`, `{}`, "s", "  two\nlines  "},
		{`query Q($d: Def = {req: 4, a: """x "q" y"""}) { g(d: $d) }`, `{}`, "d", map[string]any{"req": c15Num("4"), "a": `x "q" y`, "n": c15Num("7"), "bs": blockDef, "bq": bq}},
	}
	c := cases[r.Intn(len(cases))]
	if r.Intn(2) == 0 {
		// a supplied Def value with any subset of its fields, incl. empty strings, zero and null: supplied fields are
		// kept exactly, omitted ones get their defaults
		supplied := map[string]any{"req": c15Num("9")}
		parts := []string{`"req":9`}
		opts := map[string][][2]any{
			"a":  {{`""`, ""}, {`"x"`, "x"}, {`null`, nil}, {`"dflt"`, "dflt"}},
			"n":  {{`0`, c15Num("0")}, {`5`, c15Num("5")}, {`null`, nil}},
			"bs": {{`""`, ""}, {`" "`, " "}, {`null`, nil}},
			"bq": {{`""`, ""}, {`"q"`, "q"}},
		}
		defaults := map[string]any{"a": "dflt", "n": c15Num("7"), "bs": blockDef, "bq": bq}
		for _, f := range []string{"a", "n", "bs", "bq"} {
			if r.Intn(2) == 0 {
				o := opts[f][r.Intn(len(opts[f]))]
				parts = append(parts, fmt.Sprintf("%q:%s", f, o[0]))
				supplied[f] = o[1]
			} else {
				supplied[f] = defaults[f]
			}
		}
		val := "{" + strings.Join(parts, ",") + "}"
		if r.Intn(2) == 0 {
			c = dcase{`query Q($d: Def) { g(d: $d) }`, `{"d":` + val + `}`, "d", supplied}
		} else {
			// the same as a literal
			lit := strings.NewReplacer(`"req"`, "req", `"a"`, "a", `"n"`, "n", `"bs"`, "bs", `"bq"`, "bq").Replace(val)
			c = dcase{`query Q { g(d: ` + lit + `) }`, `{}`, "d", supplied}
		}
	}
	in := map[string]any{"operation": c.op, "variables": c.vars}
	res, p := c15Normalize(c15SDL, c.op, []byte(c.vars))
	if p != nil {
		run.Violate(Violation{Kind: "oracle", Clause: "no_panic", Input: in, Detail: fmt.Sprint(p)}, "")
		return
	}
	if res.Stage != "" {
		run.Violate(Violation{Kind: "oracle", Clause: "defaults_accepted", Input: in, Detail: res.Stage + ": " + res.Msg}, "")
		return
	}
	if !json.Valid(res.Vars) {
		run.Violate(Violation{Kind: "oracle", Clause: "variables_valid_json", Input: in, Impl: string(res.Vars), Detail: fmt.Sprintf("not valid JSON: %q", res.Vars)}, "")
		return
	}
	got, _ := c15Decode(res.Vars).(map[string]any)
	bind, _ := c15Bindings(res.Doc, "g", res.Remap)
	vname := bind[c.arg]
	if !c15Equal(got[vname], c.want) {
		run.Violate(Violation{Kind: "oracle", Clause: "default_value_preserved", Input: in, Impl: string(res.Vars),
			Detail: fmt.Sprintf("argument %s: expected %s, the variables object has %s = %s", c.arg, jsonStr(c.want), vname, jsonStr(got[vname]))}, "")
	}
	run.Feat("defaults")
}

// ---- stream C: concurrent requests on one cached plan -------------------------------------------------------------------------
//
// N goroutines execute the same operation text with different variable values on ONE engine (one cached plan, hence one
// set of input templates and variable renderers).  Every subgraph request a client's execution sends must carry that
// client's values and nobody else's.

// omitted stays omitted at the subgraph boundary: a client request without any null variable (variables are supplied or left
// out) must not make any subgraph request carry a null variable — for the fetches of a query and for the request that starts
// a subscription alike (federation bench, layout L1S of C14)
func c15StreamOmitted(run *Run, r *rand.Rand) {
	l, err := c14SubLayout()
	if err != nil {
		run.Violate(Violation{Kind: "oracle", Clause: "layout_builds", Detail: err.Error()}, "")
		return
	}
	u := fedL1Universe(r)
	var op string
	var vars []byte
	subscription := r.Intn(2) == 0
	if subscription {
		op, vars = c14GenSubscription(r, l.super, u)
	} else {
		op, vars, _ = fedGenOperation(r, l.super, u)
	}
	// no explicit null among the client's variables; nullable ones are left out half of the time
	var cv map[string]any
	dec := json.NewDecoder(strings.NewReader(string(vars)))
	dec.UseNumber()
	if dec.Decode(&cv) != nil {
		return
	}
	keys := make([]string, 0, len(cv))
	for k := range cv {
		keys = append(keys, k)
	}
	sort.Strings(keys)
	for _, k := range keys {
		if cv[k] == nil {
			delete(cv, k)
			continue
		}
		// declared nullable and without a default: may be left out
		if m := regexp.MustCompile(`\$` + regexp.QuoteMeta(k) + `: ([^,)=]+)[,)]`).FindStringSubmatch(op); m != nil && !strings.HasSuffix(strings.TrimSpace(m[1]), "!") && r.Intn(2) == 0 {
			delete(cv, k)
		}
	}
	vars, _ = json.Marshal(cv)
	c15OmittedEval(run, l, u, op, vars)
}

// replay of a recorded case of the omitted-stays-omitted stream
func c15OmittedReplay(run *Run, input []byte) bool {
	var in struct {
		Stream    string       `json:"stream"`
		Operation string       `json:"operation"`
		Variables string       `json:"variables"`
		Universe  *fedUniverse `json:"universe"`
	}
	if json.Unmarshal(input, &in) != nil || in.Stream != "omitted" || in.Universe == nil {
		return false
	}
	l, err := c14SubLayout()
	if err != nil {
		return false
	}
	c15OmittedEval(run, l, in.Universe, in.Operation, []byte(in.Variables))
	run.Count("replay")
	return true
}

func c15OmittedEval(run *Run, l *fedLayout, u *fedUniverse, op string, vars []byte) {
	subscription := strings.HasPrefix(op, "subscription")
	in := map[string]any{"operation": op, "variables": string(vars), "stream": "omitted", "universe": u}
	eng, err := fedNewEngine(l, fedEngineOpts{subClient: func(fe *fedEngine) graphql_datasource.GraphQLSubscriptionClient {
		return &c14SubClient{fe: fe, events: 1}
	}})
	if err != nil {
		run.Violate(Violation{Kind: "oracle", Clause: "engine_builds", Input: in, Detail: err.Error()}, "")
		return
	}
	defer eng.cancel()
	sess := &fedSession{layout: l, universe: u, pool: run.Pool}
	var log []fedExchange
	if subscription {
		eng.mu.Lock()
		eng.sess = sess
		eng.mu.Unlock()
		w := &c14SubWriter{}
		req := graphql.Request{Query: op, OperationName: "Q", Variables: vars}
		ctx, cancel := context.WithTimeout(context.Background(), 10*time.Second)
		done := make(chan error, 1)
		go func() { done <- eng.eng.Execute(ctx, &req, w) }()
		select {
		case err := <-done:
			if err != nil {
				cancel()
				run.Feat("omitted:execute_error")
				return
			}
		case <-time.After(12 * time.Second):
			cancel()
			run.Violate(Violation{Kind: "oracle", Clause: "subscription_ends", Input: in, Detail: "the subscription did not end within 12s"}, "")
			return
		}
		cancel()
		sess.mu.Lock()
		log = append(log, sess.log...)
		sess.mu.Unlock()
	} else {
		resp := eng.run(sess, op, "Q", vars)
		if resp.Err != nil {
			run.Feat("omitted:execute_error")
			return
		}
		log = resp.Log
	}
	for _, ex := range log {
		var fv map[string]any
		if json.Unmarshal(ex.Variables, &fv) != nil {
			continue
		}
		for k, v := range fv {
			if v == nil {
				run.Violate(Violation{Kind: "oracle", Clause: "omitted_stays_omitted_at_the_subgraph", Input: in, Impl: ex,
					Detail: fmt.Sprintf("the client sent no null variable (%s), yet subgraph %s receives %s = null with %s", vars, ex.Subgraph, k, truncate(ex.Query, 300))}, "")
				return
			}
		}
	}
	run.Feat(map[bool]string{true: "omitted:subscription", false: "omitted:query"}[subscription])
	run.mu.Lock()
	run.TracesVsImpl++
	run.mu.Unlock()
}

func c15StreamConcurrent(run *Run, r *rand.Rand) {
	layouts, err := fedGetLayouts()
	if err != nil {
		return
	}
	l := layouts["L1"]
	eng, mu, err := fedCachedEngine(l, "c15/concurrent", fedEngineOpts{})
	if err != nil {
		run.Violate(Violation{Kind: "oracle", Clause: "engine_builds", Detail: err.Error()}, "")
		return
	}
	defer mu.Unlock()
	u := fedL1Universe(r)
	op := pick(r, []string{
		`query Q($id: ID!, $term: String!) { user(id: $id) { id name } search(term: $term) { __typename } }`,
		`query Q($id: ID!, $upc: ID!) { user(id: $id) { name username } product(upc: $upc) { name } }`,
	})
	const clients = 12
	type result struct {
		vals []string
		resp *fedResponse
	}
	results := make([]result, clients)
	var wg sync.WaitGroup
	for i := 0; i < clients; i++ {
		// long, distinct values: a torn or swapped buffer is visible
		a := fmt.Sprintf("client-%02d-first-%s", i, strings.Repeat(string(rune('a'+i)), 40+r.Intn(60)))
		b := fmt.Sprintf("client-%02d-second-%s", i, strings.Repeat(string(rune('A'+i)), 10+r.Intn(90)))
		results[i].vals = []string{a, b}
		wg.Add(1)
		go func(i int, a, b string) {
			defer wg.Done()
			vars := map[string]any{"id": a}
			if strings.Contains(op, "$term") {
				vars["term"] = b
			} else {
				vars["upc"] = b
			}
			vb, _ := json.Marshal(vars)
			for rep := 0; rep < 6; rep++ {
				sess := &fedSession{layout: l, universe: u, pool: run.Pool}
				resp := eng.runCtx(sess, op, "Q", vb)
				if results[i].resp == nil || len(resp.Log) > 0 {
					results[i].resp = resp
				}
				if len(resp.Log) > 0 {
					run.Feat("concurrent_subgraph_requests_observed")
				} else {
					run.Feat("concurrent_execution_without_subgraph_request")
				}
				for _, ex := range resp.Log {
					if !json.Valid(ex.Variables) && len(ex.Variables) > 0 {
						run.Violate(Violation{Kind: "oracle", Clause: "forwarded_variables_are_json", Input: map[string]any{"operation": op, "client": i, "variables": vars},
							Impl: string(ex.Variables), Detail: fmt.Sprintf("client %d: subgraph %s received variables that are not JSON: %s", i, ex.Subgraph, truncate(string(ex.Variables), 300))}, "")
						return
					}
					body := string(ex.Variables) + ex.Query
					for j := 0; j < clients; j++ {
						if j == i {
							continue
						}
						if strings.Contains(body, fmt.Sprintf("client-%02d-", j)) {
							run.Violate(Violation{Kind: "oracle", Clause: "forwarded_values_are_the_clients_own", Input: map[string]any{"operation": op, "client": i, "variables": vars},
								Impl: string(ex.Variables), Detail: fmt.Sprintf("a request sent for client %d carries a value of client %d: %s", i, j, truncate(string(ex.Variables), 300))}, "")
							return
						}
					}
					if strings.Contains(body, "client-") && !strings.Contains(body, a) && !strings.Contains(body, b) {
						run.Violate(Violation{Kind: "oracle", Clause: "forwarded_values_are_the_clients_own", Input: map[string]any{"operation": op, "client": i, "variables": vars},
							Impl: string(ex.Variables), Detail: fmt.Sprintf("a request sent for client %d carries a damaged value: %s", i, truncate(string(ex.Variables), 300))}, "")
						return
					}
				}
			}
		}(i, a, b)
	}
	wg.Wait()
	run.Count(fmt.Sprintf("concurrent%d", r.Int63()), "concurrent_clients")
	run.mu.Lock()
	run.TracesVsImpl++
	run.mu.Unlock()
}

func runC15(run *Run, replay string) Spec {
	spec := Spec{
		Level: "proof",
		Rule: "type-directed argument literals in every spelling class (escapes, \\uXXXX incl. surrogate pairs, raw TAB, multi-byte UTF-8, block strings with indentation / blank lines / CRLF / quotes / backslashes, big and exponent numbers, enums, nested lists and input objects mixing literals with supplied / null / omitted variables): " +
			"(A) real parser + ast.Document.ValueToJSON vs the Lean model byte for byte, plus valid-JSON and same-value oracles; (B) the engine's normalisation steps (extraction, default injection, remap) on an operation against a schema: variables object valid JSON, every argument bound to a variable denoting the supplied value, omitted stays omitted, null stays null; (C) schema and operation defaults incl. block-string defaults. non-trivial = case with a string, list, object or variable; distinct = distinct (operation, variables)",
		TrustedBase: []string{"Lean 4 kernel", "axioms: propext, Classical.choice, Quot.sound only (audited)",
			"Lean model GqlVerif.Gql.Value (writeJSON over literal trees; JSON trees and their rendering)", "Go encoding/json as the judge of JSON validity and value in the oracles; math/big for numeric equality",
			"the harness' own printer of literal trees and its implementation of the spec's BlockStringValue()"},
		Assumptions: []string{"the upstream request body is covered by the end-to-end properties (C01); here the observation point is the variables object after normalisation"},
	}
	one := func(k int) {
		r := subRng(run.Seed, k)
		c, feats := c15GenCase(r)
		op, vars := c.operation()
		key := ""
		if len(feats) > 0 {
			key = op + string(vars)
		}
		run.Count(key)
		c15StreamA(run, c, feats)
		c15StreamB(run, c)
		if k%4 == 0 {
			c15StreamDefaults(run, r)
		}
		if k%40 == 0 {
			c15StreamConcurrent(run, r)
		}
		if k%25 == 7 {
			c15StreamOmitted(run, r)
		}
		if k < 3 {
			run.Sample(map[string]any{"operation": op, "variables": string(vars)})
		}
	}
	if replay != "" {
		if b, err := os.ReadFile(replay); err == nil {
			var raw struct {
				Violation struct {
					Input json.RawMessage `json:"input"`
				} `json:"violation"`
			}
			if json.Unmarshal(b, &raw) == nil && c15OmittedReplay(run, raw.Violation.Input) {
				return spec
			}
			var f struct {
				Violation struct {
					Input struct {
						Case      *c15Case `json:"case"`
						Operation string   `json:"operation"`
						Variables string   `json:"variables"`
					} `json:"input"`
				} `json:"violation"`
			}
			if json.Unmarshal(b, &f) == nil && f.Violation.Input.Case != nil {
				c := f.Violation.Input.Case
				c15Rehydrate(c)
				c15StreamA(run, c, map[string]bool{})
				c15StreamB(run, c)
				run.Count("replay")
			}
		}
		return spec
	}
	n := 6000
	if run.Tier == "thorough" {
		n = 300000
	}
	parallelFor(n, 12, func(k int) {
		if run.NViolations() < 8 {
			one(k)
		}
	})
	return spec
}

// c15Rehydrate recomputes the denoted values of string literals after a case was loaded from a replay file
func c15Rehydrate(c *c15Case) {
	var walk func(l *c15Lit)
	walk = func(l *c15Lit) {
		switch l.Kind {
		case "block":
			l.val = c15BlockValue(string(unhex(l.Content)))
		case "str":
			l.val = c15StrValue(unhex(l.Content))
		}
		for _, x := range l.Items {
			walk(x)
		}
		for _, f := range l.Fields {
			walk(f.V)
		}
	}
	for _, a := range c.Args {
		walk(a.V)
	}
}

// c15StrValue decodes a single-line string body per the GraphQL spec (incl. \u{…})
func c15StrValue(raw []byte) string {
	var out []byte
	for i := 0; i < len(raw); i++ {
		if raw[i] != '\\' || i+1 >= len(raw) {
			out = append(out, raw[i])
			continue
		}
		i++
		switch raw[i] {
		case 'b':
			out = append(out, '\b')
		case 'f':
			out = append(out, '\f')
		case 'n':
			out = append(out, '\n')
		case 'r':
			out = append(out, '\r')
		case 't':
			out = append(out, '\t')
		case 'u':
			if i+1 < len(raw) && raw[i+1] == '{' {
				j := bytes.IndexByte(raw[i:], '}')
				var cp rune
				fmt.Sscanf(string(raw[i+2:i+j]), "%x", &cp)
				out = utf8.AppendRune(out, cp)
				i += j
			} else if i+4 < len(raw) {
				var cp rune
				fmt.Sscanf(string(raw[i+1:i+5]), "%x", &cp)
				i += 4
				if cp >= 0xD800 && cp < 0xDC00 && i+6 < len(raw) && raw[i+1] == '\\' && raw[i+2] == 'u' {
					var lo rune
					fmt.Sscanf(string(raw[i+3:i+7]), "%x", &lo)
					cp = 0x10000 + (cp-0xD800)<<10 + (lo - 0xDC00)
					i += 6
				}
				out = utf8.AppendRune(out, cp)
			}
		default:
			out = append(out, raw[i])
		}
	}
	return string(out)
}
