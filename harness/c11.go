package main

import (
	"bytes"
	"context"
	"encoding/json"
	"errors"
	"fmt"
	"io"
	"math/rand"
	"net/http"
	"os"
	"runtime"
	"sort"
	"strconv"
	"strings"
	"sync"
	"time"

	"github.com/wundergraph/graphql-go-tools/v2/pkg/ast"
	"github.com/wundergraph/graphql-go-tools/v2/pkg/engine/datasource/httpclient"
	"github.com/wundergraph/graphql-go-tools/v2/pkg/engine/plan"
	"github.com/wundergraph/graphql-go-tools/v2/pkg/engine/postprocess"
	"github.com/wundergraph/graphql-go-tools/v2/pkg/engine/resolve"
)

func init() { props["C11"] = runC11 }

func goid() int64 {
	var buf [64]byte
	n := runtime.Stack(buf[:], false)
	// "goroutine 123 [running]:"
	f := strings.Fields(string(buf[:n]))
	if len(f) < 2 {
		return -1
	}
	id, _ := strconv.ParseInt(f[1], 10, 64)
	return id
}

// ---- scenario -------------------------------------------------------------------------------------

type c11PartSpec struct {
	Key         int  `json:"key"`         // 0 = the shared key, 1 = different variables, 2 = same variables but different forwarded headers
	Mutation    bool `json:"mutation"`    // mutations are never shared
	WriterFails bool `json:"writerFails"` // this client's response writer fails (its connection is gone)
}

type c11Choice struct {
	Kind string `json:"kind"` // start | release | gateOk | gateErr | cancel
	P    int    `json:"p"`
}

type c11Scenario struct {
	Mode  string        `json:"mode"` // inbound | subgraph
	Parts []c11PartSpec `json:"participants"`
	// the schedule actually taken (random choices recorded so that a replay is exact)
	Schedule []c11Choice `json:"schedule"`
}

type c11Outcome struct {
	Returned  bool   `json:"returned"`
	Bytes     string `json:"bytes"`
	Err       string `json:"err"`
	Panic     string `json:"panic"`
	OwnCancel bool   `json:"ownCancel"`
}

type c11Event struct {
	p     int
	kind  string // hook | gate | ret
	point string
	key   any
	out   c11Outcome
}

type c11Headers struct{ h uint64 }

func (b c11Headers) HeadersForSubgraph(name string) (http.Header, uint64) {
	return http.Header{"X-User": []string{fmt.Sprint(b.h)}}, b.h
}
func (b c11Headers) HashAll() uint64 { return b.h }

type c11FailWriter struct{}

var errClientGone = errors.New("broken pipe (client went away)")

func (c11FailWriter) Write(p []byte) (int, error) { return 0, errClientGone }

type c11Gate struct {
	data []byte
	err  error
}

type c11DS struct{ w *c11World }

func (d *c11DS) Load(ctx context.Context, headers http.Header, input []byte) ([]byte, error) {
	w := d.w
	p := w.partOf(goid())
	if p < 0 {
		return nil, fmt.Errorf("load from an unknown goroutine")
	}
	w.mu.Lock()
	w.loads[p]++
	w.mu.Unlock()
	w.events <- c11Event{p: p, kind: "gate"}
	// only the scheduler lets a participant through the gate (also for a cancelled context: it then hands out
	// the context error), so that exactly one participant runs at a time and event order = effect order
	g := <-w.gates[p]
	return g.data, g.err
}
func (d *c11DS) LoadWithFiles(ctx context.Context, headers http.Header, input []byte, files []*httpclient.FileUpload) ([]byte, error) {
	return d.Load(ctx, headers, input)
}

type c11World struct {
	mu      sync.Mutex
	goids   map[int64]int
	events  chan c11Event
	release []chan struct{}
	gates   []chan c11Gate
	loads   []int
}

func (w *c11World) partOf(g int64) int {
	w.mu.Lock()
	defer w.mu.Unlock()
	if p, ok := w.goids[g]; ok {
		return p
	}
	return -1
}

func c11Plan(op ast.OperationType, ds resolve.DataSource) *resolve.GraphQLResponse {
	p := &plan.SynchronousResponsePlan{Response: &resolve.GraphQLResponse{
		RawFetches: []*resolve.FetchItem{{Fetch: &resolve.SingleFetch{
			FetchDependencies: resolve.FetchDependencies{FetchID: 0},
			FetchConfiguration: resolve.FetchConfiguration{
				Input:          `{"q":"v"}`,
				DataSource:     ds,
				PostProcessing: resolve.PostProcessingConfiguration{SelectResponseDataPath: []string{"data"}},
			},
			Info: &resolve.FetchInfo{DataSourceID: "ds", DataSourceName: "ds", OperationType: op},
		}}},
		Data: &resolve.Object{Fields: []*resolve.Field{{Name: []byte("v"), Value: &resolve.String{Path: []string{"v"}, Nullable: true}}}},
		Info: &resolve.GraphQLResponseInfo{OperationType: op},
	}}
	postprocess.NewProcessor().Process(p)
	return p.Response
}

var errUpstream = errors.New("upstream failure (injected)")

// reference responses of a request that runs alone
func c11Reference() (ok string, failed string) {
	for _, fail := range []bool{false, true} {
		w := &c11World{goids: map[int64]int{}, events: make(chan c11Event, 16), release: []chan struct{}{make(chan struct{})}, gates: []chan c11Gate{make(chan c11Gate, 1)}, loads: make([]int, 1)}
		ds := &c11DS{w: w}
		if fail {
			w.gates[0] <- c11Gate{err: errUpstream}
		} else {
			w.gates[0] <- c11Gate{data: []byte(`{"data":{"v":"value"}}`)}
		}
		res := resolve.New(context.Background(), resolve.ResolverOptions{MaxConcurrency: 16, PropagateSubgraphErrors: true})
		done := make(chan string, 1)
		go func() {
			w.mu.Lock()
			w.goids[goid()] = 0
			w.mu.Unlock()
			ctx := resolve.NewContext(context.Background())
			ctx.ExecutionOptions.DisableInboundRequestDeduplication = true
			ctx.ExecutionOptions.DisableSubgraphRequestDeduplication = true
			var buf bytes.Buffer
			res.ArenaResolveGraphQLResponse(ctx, c11Plan(ast.OperationTypeQuery, ds), &buf)
			done <- buf.String()
		}()
		out := <-done
		if fail {
			failed = out
		} else {
			ok = out
		}
	}
	return
}

type c11Result struct {
	Trace     [][]any      `json:"trace"`
	Outcomes  []c11Outcome `json:"outcomes"`
	Loads     []int        `json:"loads"`
	Hooks     []string     `json:"hooks"`
	Violation string       `json:"violation,omitempty"`
	Known     string       `json:"known,omitempty"`
	// per participant: the generation whose shared work produced its result and whether that work was
	// disturbed by the leader's cancellation / an injected upstream failure
	GenOf              []int  `json:"genOf"`
	GenFailed          []bool `json:"genFailed"`
	GenLeaderCancelled []bool `json:"genLeaderCancelled"`
	GenLeader          []int  `json:"genLeader"`
}

// c11RunScenario executes one scenario on the real resolver. With fixed==nil the schedule is drawn from r and
// recorded into sc.Schedule; otherwise the recorded schedule is replayed.
func c11RunScenario(sc *c11Scenario, r *rand.Rand, fixed []c11Choice) (res c11Result) {
	n := len(sc.Parts)
	w := &c11World{goids: map[int64]int{}, events: make(chan c11Event, 256), loads: make([]int, n)}
	for i := 0; i < n; i++ {
		w.release = append(w.release, make(chan struct{}))
		w.gates = append(w.gates, make(chan c11Gate, 1))
	}
	resolve.VerifSetYieldHook(func(point string, key any) {
		p := w.partOf(goid())
		if p < 0 {
			return
		}
		w.events <- c11Event{p: p, kind: "hook", point: point, key: key}
		<-w.release[p]
	})
	defer resolve.VerifSetYieldHook(nil)
	ds := &c11DS{w: w}
	queryPlan := c11Plan(ast.OperationTypeQuery, ds)
	mutationPlan := c11Plan(ast.OperationTypeMutation, ds)
	rootCtx, rootCancel := context.WithCancel(context.Background())
	defer rootCancel()
	resolver := resolve.New(rootCtx, resolve.ResolverOptions{MaxConcurrency: 64, PropagateSubgraphErrors: true})

	status := make([]string, n) // new | running | hook | gate | waiting | returned
	point := make([]string, n)
	hookKey := make([]any, n)
	cancelled := make([]bool, n)
	cancels := make([]context.CancelFunc, n)
	for i := range status {
		status[i] = "new"
	}
	res.Outcomes = make([]c11Outcome, n)
	res.GenOf = make([]int, n)
	for i := range res.GenOf {
		res.GenOf[i] = -1
	}
	// entries by key pointer
	type entry = c11Entry
	entries := map[any]*entry{}
	nextGen := 0
	gateFail := map[int]bool{} // participant -> its load was failed by injection

	start := func(p int) {
		pctx, cancel := context.WithCancel(rootCtx)
		cancels[p] = cancel
		status[p] = "running"
		go func() {
			w.mu.Lock()
			w.goids[goid()] = p
			w.mu.Unlock()
			var out c11Outcome
			defer func() {
				if pv := recover(); pv != nil {
					out.Panic = fmt.Sprint(pv)
				}
				out.Returned = true
				w.events <- c11Event{p: p, kind: "ret", out: out}
			}()
			ctx := resolve.NewContext(pctx)
			ctx.Request.ID = 42
			ctx.VariablesHash = 1000
			if sc.Parts[p].Key == 1 {
				ctx.VariablesHash = 1001
			}
			ctx.SubgraphHeadersBuilder = c11Headers{h: 7}
			if sc.Parts[p].Key == 2 {
				ctx.SubgraphHeadersBuilder = c11Headers{h: 8} // another user's forwarded headers
			}
			if sc.Mode == "inbound" {
				ctx.ExecutionOptions.DisableSubgraphRequestDeduplication = true
			} else {
				ctx.ExecutionOptions.DisableInboundRequestDeduplication = true
				// the subgraph single flight key is (data source, input, headers hash); variables are part of the input,
				// which this plan does not vary: a key-1 participant opts out instead
				if sc.Parts[p].Key == 1 {
					ctx.ExecutionOptions.DisableSubgraphRequestDeduplication = true
				}
			}
			pl := queryPlan
			if sc.Parts[p].Mutation {
				pl = mutationPlan
			}
			var buf bytes.Buffer
			var wr io.Writer = &buf
			if sc.Parts[p].WriterFails {
				wr = c11FailWriter{}
			}
			_, err := resolver.ArenaResolveGraphQLResponse(ctx, pl, wr)
			out.Bytes = buf.String()
			if err != nil {
				out.Err = err.Error()
				out.OwnCancel = errors.Is(err, context.Canceled)
			}
		}()
	}

	watchdog := time.After(6 * time.Second)
	expectReturn := map[int]bool{}
	// process one event
	handle := func(ev c11Event) {
		p := ev.p
		switch ev.kind {
		case "gate":
			status[p] = "gate"
			delete(expectReturn, p) // a late follower resolves on its own instead of returning
		case "ret":
			status[p] = "returned"
			res.Outcomes[p] = ev.out
			delete(expectReturn, p)
			// a follower's return is its wake-up or its own cancellation
			if g := res.GenOf[p]; g >= 0 {
				isFollower := false
				for _, e := range entries {
					if e.gen == g && e.leader != p {
						isFollower = true
					}
				}
				if isFollower {
					// the scheduler waits for a cancelled follower to return before it makes the next choice, so its
					// entry cannot have been closed in between: an open entry means it left through ctx.Done
					if cancelled[p] && (ev.out.OwnCancel || !entriesClosed(entries, g)) {
						res.Trace = append(res.Trace, []any{"cancelWait", p})
					} else {
						res.Trace = append(res.Trace, []any{"wake", p})
					}
				}
			}
		case "hook":
			status[p] = "hook"
			delete(expectReturn, p)
			point[p] = ev.point
			hookKey[p] = ev.key
			res.Hooks = append(res.Hooks, fmt.Sprintf("%d@%s", p, ev.point))
			switch ev.point {
			case "inbound.leader.created", "subgraph.leader.loading":
				e := &entry{gen: nextGen, leader: p}
				nextGen++
				entries[ev.key] = e
				res.GenOf[p] = e.gen
				res.Trace = append(res.Trace, []any{"arrive", p})
			case "inbound.follower.beforeAddFollower":
				if e := entries[ev.key]; e != nil {
					res.GenOf[p] = e.gen
				}
				res.Trace = append(res.Trace, []any{"arrive", p})
			case "inbound.follower.registered":
				if e := entries[ev.key]; e != nil {
					e.followers = append(e.followers, p)
				}
				res.Trace = append(res.Trace, []any{"addFollower", p})
			case "subgraph.follower.waiting":
				if e := entries[ev.key]; e != nil {
					res.GenOf[p] = e.gen
					e.followers = append(e.followers, p)
				}
				res.Trace = append(res.Trace, []any{"sub.arriveShared", p})
			case "inbound.finishOk.afterDelete":
				res.Trace = append(res.Trace, []any{"finishOkDelete", p})
			case "inbound.finishOk.beforeClose":
				res.Trace = append(res.Trace, []any{"finishOkCheck", p})
			case "inbound.finishErr.beforeClose":
				src := any("upstream")
				if cancelled[p] {
					src = p
				}
				res.Trace = append(res.Trace, []any{"finishErrDelete", p, src})
			case "subgraph.finish.beforeClose":
				if gateFail[p] {
					res.Trace = append(res.Trace, []any{"sub.finishErr", p, "upstream"})
				} else if cancelled[p] {
					res.Trace = append(res.Trace, []any{"sub.finishErr", p, p})
				} else {
					res.Trace = append(res.Trace, []any{"sub.finishOk", p})
				}
			}
		}
	}
	settle := func() bool {
		for {
			busy := false
			for p := 0; p < n; p++ {
				if status[p] == "running" || expectReturn[p] {
					busy = true
				}
			}
			if !busy {
				return true
			}
			select {
			case ev := <-w.events:
				handle(ev)
			case <-watchdog:
				return false
			}
		}
	}
	step := 0
	for {
		if !settle() {
			stuck := []string{}
			for p := 0; p < n; p++ {
				if status[p] == "running" || expectReturn[p] {
					stuck = append(stuck, fmt.Sprintf("%d(%s)", p, status[p]))
				}
			}
			res.Violation = "watchdog: participants did not reach their next event: " + strings.Join(stuck, ",")
			break
		}
		var choices []c11Choice
		for p := 0; p < n; p++ {
			switch status[p] {
			case "new":
				choices = append(choices, c11Choice{"start", p})
				if !cancelled[p] {
					choices = append(choices, c11Choice{"cancel", p}) // the client is gone before the request is even resolved
				}
			case "hook":
				choices = append(choices, c11Choice{"release", p})
			case "gate":
				choices = append(choices, c11Choice{"gateOk", p}, c11Choice{"gateErr", p})
				if !cancelled[p] {
					choices = append(choices, c11Choice{"cancel", p})
				} else {
					choices = append(choices, c11Choice{"gateCtxErr", p}) // the transport notices the dead context
				}
			case "waiting":
				if !cancelled[p] {
					choices = append(choices, c11Choice{"cancel", p})
				}
			}
		}
		// a scenario is complete when every participant has returned; waiting followers whose leader is gone would be a wedge
		allDone := true
		for p := 0; p < n; p++ {
			if status[p] != "returned" {
				allDone = false
			}
		}
		if allDone {
			break
		}
		if len(choices) == 0 {
			res.Violation = fmt.Sprintf("wedged: no participant can make progress, statuses %v", status)
			break
		}
		var c c11Choice
		if fixed != nil {
			if step >= len(fixed) {
				res.Violation = "replay: schedule exhausted before every participant returned"
				break
			}
			c = fixed[step]
		} else {
			// cancellations are rarer than the other choices
			for {
				c = choices[r.Intn(len(choices))]
				if c.Kind != "cancel" || r.Intn(4) == 0 {
					break
				}
			}
			sc.Schedule = append(sc.Schedule, c)
		}
		step++
		p := c.P
		switch c.Kind {
		case "start":
			start(p)
			if cancelled[p] {
				cancels[p]()
			}
		case "gateOk":
			status[p] = "running"
			w.gates[p] <- c11Gate{data: []byte(`{"data":{"v":"value"}}`)}
		case "gateErr":
			status[p] = "running"
			gateFail[p] = true
			w.gates[p] <- c11Gate{err: errUpstream}
		case "gateCtxErr":
			status[p] = "running"
			w.gates[p] <- c11Gate{err: context.Canceled}
		case "cancel":
			cancelled[p] = true
			if status[p] == "new" {
				break
			}
			cancels[p]()
			if status[p] == "waiting" {
				expectReturn[p] = true
			} else {
				// at the gate: the in-flight upstream call fails with the context error
				status[p] = "running"
				w.gates[p] <- c11Gate{err: context.Canceled}
			}
		case "release":
			pt := point[p]
			status[p] = "running"
			switch pt {
			case "inbound.follower.registered", "subgraph.follower.waiting":
				// now blocked in select; returns only when the entry is closed (or on its own cancellation)
				e := entries[hookKey[p]]
				if cancelled[p] {
					// its context is already done: the select returns at once
					expectReturn[p] = true
					status[p] = "waiting"
				} else if e != nil && e.closed {
					expectReturn[p] = true
					status[p] = "waiting"
				} else if e == nil {
					expectReturn[p] = true
					status[p] = "waiting"
				} else {
					status[p] = "waiting"
				}
			case "inbound.finishOk.beforeClose", "inbound.finishErr.beforeClose", "subgraph.finish.beforeClose":
				e := entries[hookKey[p]]
				if e != nil {
					e.closed = true
					for _, f := range e.followers {
						if status[f] == "waiting" {
							expectReturn[f] = true
						}
					}
				}
				switch pt {
				case "inbound.finishOk.beforeClose":
					res.Trace = append(res.Trace, []any{"finishOkClose", p})
				case "inbound.finishErr.beforeClose":
					res.Trace = append(res.Trace, []any{"finishErrClose", p})
				default:
					last := res.Trace[len(res.Trace)-1]
					_ = last
					if gateFail[p] || cancelled[p] {
						res.Trace = append(res.Trace, []any{"sub.closeErr", p})
					} else {
						res.Trace = append(res.Trace, []any{"sub.closeOk", p})
					}
				}
			}
			w.release[p] <- struct{}{}
		}
	}
	// let stragglers finish so that the next scenario starts clean
	rootCancel()
	for p := 0; p < n; p++ {
		for status[p] != "returned" && status[p] != "new" {
			select {
			case w.release[p] <- struct{}{}:
			case w.gates[p] <- c11Gate{err: context.Canceled}:
			case ev := <-w.events:
				handle(ev)
			case <-time.After(2 * time.Second):
				status[p] = "returned"
			}
		}
	}
	w.mu.Lock()
	res.Loads = append([]int{}, w.loads...)
	w.mu.Unlock()
	// which generations were disturbed
	res.GenFailed = make([]bool, nextGen)
	res.GenLeaderCancelled = make([]bool, nextGen)
	res.GenLeader = make([]int, nextGen)
	for _, e := range entries {
		res.GenLeader[e.gen] = e.leader
		res.GenFailed[e.gen] = gateFail[e.leader]
		res.GenLeaderCancelled[e.gen] = cancelled[e.leader]
	}
	return res
}

type c11Entry struct {
	gen       int
	leader    int
	closed    bool
	followers []int
}

func entriesClosed(entries map[any]*c11Entry, g int) bool {
	for _, e := range entries {
		if e.gen == g {
			return e.closed
		}
	}
	return false
}

// ---- the check -----------------------------------------------------------------------------------

func c11Judge(run *Run, sc *c11Scenario, res c11Result, refOK, refFailed string) {
	in := map[string]any{"scenario": sc}
	n := len(sc.Parts)
	feats := []string{"mode:" + sc.Mode, fmt.Sprintf("n=%d", n)}
	shared := 0
	for p := 0; p < n; p++ {
		if res.Loads[p] == 0 && res.Outcomes[p].Returned && res.Outcomes[p].Bytes != "" {
			shared++
		}
	}
	if shared > 0 {
		feats = append(feats, "some_result_shared")
	}
	for _, h := range res.Hooks {
		feats = append(feats, "hook:"+h[strings.Index(h, "@")+1:])
	}
	sort.Strings(feats)
	feats = compactStrings(feats)
	key := ""
	if shared > 0 || len(sc.Schedule) > 2*n {
		key = jsonStr(sc)
	}
	run.Count(key, feats...)
	run.mu.Lock()
	run.TracesVsImpl++
	run.mu.Unlock()
	if res.Violation != "" {
		run.Violate(Violation{Kind: "oracle", Clause: "never_wedged", Input: in, Impl: res, Detail: res.Violation}, "")
		return
	}
	cancelledSet := map[int]bool{}
	for _, c := range sc.Schedule {
		if c.Kind == "cancel" {
			cancelledSet[c.P] = true
		}
	}
	for p := 0; p < n; p++ {
		o := res.Outcomes[p]
		if o.Panic != "" {
			run.Violate(Violation{Kind: "oracle", Clause: "no_panic", Input: in, Impl: res, Detail: fmt.Sprintf("participant %d panicked: %s", p, o.Panic)}, "")
			return
		}
		if !o.Returned {
			run.Violate(Violation{Kind: "oracle", Clause: "every_participant_returns", Input: in, Impl: res, Detail: fmt.Sprintf("participant %d never returned", p)}, "")
			return
		}
		if sc.Parts[p].Mutation && res.Loads[p] != 1 && !cancelledSet[p] {
			run.Violate(Violation{Kind: "oracle", Clause: "mutations_never_shared", Input: in, Impl: res, Detail: fmt.Sprintf("mutation participant %d issued %d loads", p, res.Loads[p])}, "")
			return
		}
		if g := res.GenOf[p]; g >= 0 && g < len(res.GenLeader) {
			if l := res.GenLeader[g]; sc.Parts[l].Key != sc.Parts[p].Key || sc.Parts[l].Mutation != sc.Parts[p].Mutation {
				run.Violate(Violation{Kind: "oracle", Clause: "shared_only_with_same_key", Input: in, Impl: res,
					Detail: fmt.Sprintf("participant %d joined the in-flight work of participant %d, which has a different key", p, l)}, "")
				return
			}
		}
		// transparency: the bytes a participant receives are the bytes it would have received alone
		if cancelledSet[p] {
			continue // its own cancellation: any outcome that reports it is its own business
		}
		if sc.Parts[p].WriterFails {
			if o.Err == "" {
				run.Violate(Violation{Kind: "oracle", Clause: "own_writer_error_reported", Input: in, Impl: res, Detail: fmt.Sprintf("participant %d has a failing writer but got no error", p)}, "")
				return
			}
			continue
		}
		g := res.GenOf[p]
		ownLoadFailed := false
		for _, c := range sc.Schedule {
			if c.Kind == "gateErr" && c.P == p {
				ownLoadFailed = true
			}
		}
		want := refOK
		if ownLoadFailed || (g >= 0 && g < len(res.GenFailed) && res.GenFailed[g] && res.Loads[p] == 0) {
			want = refFailed // the shared work itself failed; the participant would have hit the same failure alone
		}
		if o.Err != "" || o.Bytes != want {
			known := ""
			if g >= 0 && g < len(res.GenLeaderCancelled) && res.GenLeaderCancelled[g] && res.Loads[p] == 0 {
				known = "C11-leader-cancel-leaks"
			}
			run.Violate(Violation{Kind: "oracle", Clause: "participant_gets_what_it_would_get_alone", Input: in, Impl: res,
				Detail: fmt.Sprintf("participant %d got bytes=%q err=%q, alone it would get %q", p, o.Bytes, o.Err, want)}, known)
			if known == "" {
				return
			}
		}
	}
	// the observed trace is a run of the Lean protocol model; final program counters agree with the outcomes
	// one key per model run: entries under different keys never interact
	if !sc.hasOtherKey() {
		c11Accept(run, sc, res, in, n, cancelledSet, shared, func(p int) bool { return true })
		return
	}
	for _, k := range []int{0, 1, 2} {
		kk := k
		c11Accept(run, sc, res, in, n, cancelledSet, shared, func(p int) bool { return sc.Parts[p].Key == kk })
	}
}

func (sc *c11Scenario) hasOtherKey() bool {
	for _, p := range sc.Parts {
		if p.Key != 0 {
			return true
		}
	}
	return false
}

func c11Accept(run *Run, sc *c11Scenario, res c11Result, in map[string]any, n int, cancelledSet map[int]bool, shared int, inGroup func(p int) bool) {
	var trace [][]any
	for _, a := range res.Trace {
		if p, ok := a[1].(int); ok && inGroup(p) {
			trace = append(trace, a)
		}
	}
	m, err := run.Pool.Ask("c11.accept", map[string]any{"trace": trace, "participants": n})
	if err != nil {
		run.Violate(Violation{Kind: "correspondence", Clause: "driver", Input: in, Detail: err.Error()}, "")
		return
	}
	var acc struct {
		Accepted      bool     `json:"accepted"`
		RejectedAt    *int     `json:"rejectedAt"`
		Pcs           []string `json:"pcs"`
		NoDoubleClose bool     `json:"noDoubleClose"`
	}
	json.Unmarshal(m, &acc)
	if !acc.Accepted {
		run.Violate(Violation{Kind: "correspondence", Clause: "c11.accept: the observed trace is not a run of the protocol model", Input: in, Impl: res, Model: decodeRaw(m)}, "")
		return
	}
	for p := 0; p < n; p++ {
		if !inGroup(p) || cancelledSet[p] {
			continue // a cancelled participant's outcome is its own business (select may take either ready branch)
		}
		pc := acc.Pcs[p]
		o := res.Outcomes[p]
		okPc := false
		switch {
		case strings.HasPrefix(pc, "doneLeader"), pc == "solo":
			okPc = res.Loads[p] >= 1 || cancelledSet[p]
		case strings.HasPrefix(pc, "gotData"):
			okPc = res.Loads[p] == 0 && (o.Err == "" || sc.Parts[p].WriterFails)
		case strings.HasPrefix(pc, "gotErr"):
			okPc = res.Loads[p] == 0
		case pc == "ownCancel":
			okPc = cancelledSet[p]
		case pc == "idle":
			okPc = sc.Parts[p].Mutation || (sc.Mode == "subgraph" && sc.Parts[p].Key == 1) // never entered the single flight
		}
		if !okPc {
			run.Violate(Violation{Kind: "correspondence", Clause: "c11.accept: final model state disagrees with the observed outcome", Input: in, Impl: res, Model: decodeRaw(m),
				Detail: fmt.Sprintf("participant %d: model pc %s, loads %d, err %q", p, pc, res.Loads[p], o.Err)}, "")
			return
		}
	}
	if shared > 0 {
		run.Sample(map[string]any{"scenario": sc, "trace": res.Trace, "model_pcs": acc.Pcs})
	}
}

func compactStrings(xs []string) []string {
	out := xs[:0]
	for i, x := range xs {
		if i == 0 || x != xs[i-1] {
			out = append(out, x)
		}
	}
	return out
}

func runC11(run *Run, replay string) Spec {
	spec := Spec{
		Level: "proof",
		Rule: "scenarios of 2-4 concurrent participants (same or different key, queries and mutations) through the real Resolver.ArenaResolveGraphQLResponse with one gated fake data source, in two modes (inbound single flight; sub-graph single flight with inbound de-duplication off); " +
			"every participant is parked at the verif yield points inside GetOrCreate / FinishOk / FinishErr / loadByContext / Finish and at the data-source gate, and a seeded scheduler chooses which parked participant to release next, when to fail the upstream and whom to cancel; " +
			"each observed trace must be a run of the Lean transition system (acceptor) and the outcomes must be what each participant would get alone. non-trivial = at least one participant received a shared result or the schedule has more than 2n steps; distinct = distinct (scenario, schedule)",
		TrustedBase: []string{"Lean 4 kernel", "axioms: propext, Classical.choice, Quot.sound only (audited)",
			"Lean LTS GqlVerif.Proto.SingleFlight (one key, unbounded participants); atomicity of each modelled step = Go sync.Map LoadOrStore/Delete, atomic counter, channel close, select (trusted runtime semantics)",
			"verif hooks in /repo (yield points, build tag verif) and the harness scheduler; goroutine identity via runtime.Stack"},
		Assumptions: []string{"hash collisions between different keys are not modelled", "interleavings are sampled at yield-point granularity; the theorems cover all of the model's interleavings",
			"the subgraph single flight is the same transition system with lookup+registration atomic and the leader always publishing (translated by the driver)"},
	}
	refOK, refFailed := c11Reference()
	if replay != "" {
		b, err := os.ReadFile(replay)
		if err == nil {
			var f struct {
				Violation struct {
					Input struct {
						Scenario c11Scenario `json:"scenario"`
					} `json:"input"`
				} `json:"violation"`
			}
			if json.Unmarshal(b, &f) == nil && len(f.Violation.Input.Scenario.Parts) > 0 {
				sc := f.Violation.Input.Scenario
				res := c11RunScenario(&sc, nil, sc.Schedule)
				c11Judge(run, &sc, res, refOK, refFailed)
			}
		}
		return spec
	}
	n := 1500
	if run.Tier == "thorough" {
		n = 60_000
	}
	for i := 0; i < n; i++ {
		if run.NViolations() >= 10 {
			break
		}
		r := subRng(run.Seed, i)
		sc := &c11Scenario{Mode: pick(r, []string{"inbound", "inbound", "subgraph"})}
		for k, np := 0, 2+r.Intn(3); k < np; k++ {
			ps := c11PartSpec{}
			if r.Intn(7) == 0 {
				ps.Key = 1 + r.Intn(2)
			}
			if r.Intn(9) == 0 {
				ps.WriterFails = true
			}
			if r.Intn(10) == 0 {
				ps.Mutation = true
			}
			sc.Parts = append(sc.Parts, ps)
		}
		res := c11RunScenario(sc, r, nil)
		c11Judge(run, sc, res, refOK, refFailed)
	}
	return spec
}
