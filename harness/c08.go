package main

import (
	"bytes"
	"context"
	"encoding/json"
	"fmt"
	"math/rand"
	"net/http"
	"os"
	"regexp"
	"sort"
	"strings"
	"sync"
	"sync/atomic"
	"time"

	"github.com/wundergraph/graphql-go-tools/v2/pkg/ast"
	"github.com/wundergraph/graphql-go-tools/v2/pkg/astparser"
	"github.com/wundergraph/graphql-go-tools/v2/pkg/engine/datasource/httpclient"
	"github.com/wundergraph/graphql-go-tools/v2/pkg/engine/plan"
	"github.com/wundergraph/graphql-go-tools/v2/pkg/engine/postprocess"
	"github.com/wundergraph/graphql-go-tools/v2/pkg/engine/resolve"
)

func init() { props["C08"] = runC08 }

type c08Fetch struct {
	ID   int   `json:"id"`
	Deps []int `json:"deps"`
	Dup  int   `json:"dupOf"`  // -1, or the id of an earlier fetch this one is an exact duplicate of
	Ent  int   `json:"entity"` // -1, or the index of the subgraph this fetch is a batch entity fetch on (multi-fetch candidate)
}

type c08Tree struct {
	K  string     `json:"k"`
	ID int        `json:"id,omitempty"`
	C  []*c08Tree `json:"c,omitempty"`
	M  []int      `json:"merged,omitempty"` // original fetch ids served by a merged (multi entity) leaf
}

func (t *c08Tree) String() string {
	if t == nil {
		return "nil"
	}
	if t.K == "single" {
		if len(t.M) > 0 {
			return fmt.Sprintf("Multi%v", t.M)
		}
		return fmt.Sprint(t.ID)
	}
	parts := make([]string, len(t.C))
	for i, c := range t.C {
		parts[i] = c.String()
	}
	return map[string]string{"seq": "S", "par": "P"}[t.K] + "(" + strings.Join(parts, ",") + ")"
}

// ---- DAG generator --------------------------------------------------------------------------------

func c08GenDAG(r *rand.Rand) []c08Fetch {
	n := 1 + r.Intn(11)
	density := []float64{0, 0.15, 0.3, 0.6}[r.Intn(4)]
	ids := r.Perm(n + r.Intn(3)) // ids are not contiguous and not in topological order
	ids = ids[:n]
	// topological position = index in `order`; edges only from later to earlier positions
	fs := make([]c08Fetch, n)
	for i := 0; i < n; i++ {
		fs[i] = c08Fetch{ID: ids[i], Dup: -1, Ent: -1}
		for j := 0; j < i; j++ {
			if r.Float64() < density {
				fs[i].Deps = append(fs[i].Deps, ids[j])
			}
		}
		if r.Intn(12) == 0 {
			fs[i].Deps = append(fs[i].Deps, 100+r.Intn(3)) // dependency satisfied outside this tree (defer parent)
		}
		if r.Intn(6) == 0 && len(fs[i].Deps) > 1 {
			r.Shuffle(len(fs[i].Deps), func(a, b int) { fs[i].Deps[a], fs[i].Deps[b] = fs[i].Deps[b], fs[i].Deps[a] })
		}
	}
	// batch entity fetches on one of two subgraphs (candidates for multi-fetch merging)
	if r.Intn(2) == 0 {
		for i := range fs {
			if len(fs[i].Deps) > 0 && r.Intn(2) == 0 {
				fs[i].Ent = r.Intn(2)
			}
		}
	}
	// exact duplicates (same input, same dependencies) for the de-duplication stage
	if n >= 2 && r.Intn(4) == 0 {
		i := 1 + r.Intn(n-1)
		j := r.Intn(i)
		fs[i].Dup = fs[j].ID
		fs[i].Deps = append([]int{}, fs[j].Deps...)
		fs[i].Ent = fs[j].Ent
	}
	// present the fetches to the organiser in random order
	r.Shuffle(n, func(a, b int) { fs[a], fs[b] = fs[b], fs[a] })
	return fs
}

// expected effective dependency relation after de-duplication
func c08Effective(fs []c08Fetch, dedupe bool) (deps map[int][]int, known []int, surv map[int]int) {
	surv = map[int]int{}
	deps = map[int][]int{}
	pos := map[int]int{}
	for i, f := range fs {
		pos[f.ID] = i
	}
	// the organiser keeps the FIRST of two equal fetches in list order
	for _, f := range fs {
		surv[f.ID] = f.ID
	}
	if dedupe {
		for _, f := range fs {
			if f.Dup >= 0 {
				a, b := f.ID, f.Dup
				if pos[a] < pos[b] {
					surv[b] = a
				} else {
					surv[a] = b
				}
			}
		}
	}
	for _, f := range fs {
		if surv[f.ID] != f.ID {
			continue
		}
		known = append(known, f.ID)
		for _, d := range f.Deps {
			if s, ok := surv[d]; ok {
				d = s
			}
			deps[f.ID] = append(deps[f.ID], d)
		}
	}
	sort.Ints(known)
	return
}

// ---- building and processing a plan ------------------------------------------------------------------

type c08DS struct {
	id   int
	ctrl *c08Ctrl
}

func (d *c08DS) Load(ctx context.Context, headers http.Header, input []byte) ([]byte, error) {
	if d.ctrl == nil {
		return []byte(`{"data":{}}`), nil
	}
	return d.ctrl.load(d.id, input)
}
func (d *c08DS) LoadWithFiles(ctx context.Context, headers http.Header, input []byte, files []*httpclient.FileUpload) ([]byte, error) {
	return d.Load(ctx, headers, input)
}

func c08BuildPlan(fs []c08Fetch, ctrl *c08Ctrl, multi bool) *plan.SynchronousResponsePlan {
	items := make([]*resolve.FetchItem, len(fs))
	var fields []*resolve.Field
	keyOf := map[int]int{} // a duplicate writes (and is read) at the response position of the fetch it duplicates
	for _, f := range fs {
		keyOf[f.ID] = f.ID
		if f.Dup >= 0 {
			keyOf[f.ID] = f.Dup
		}
	}
	for i, f := range fs {
		key := f.ID
		if f.Dup >= 0 {
			key = f.Dup
		}
		// the request body carries the values of the fetches this one depends on
		var sb strings.Builder
		vars := resolve.Variables{}
		fmt.Fprintf(&sb, `{"key":%d,"deps":[`, key)
		for k, d := range f.Deps {
			if k > 0 {
				sb.WriteString(",")
			}
			dk := d
			if k2, ok := keyOf[d]; ok {
				dk = k2
			}
			name, _ := vars.AddVariable(&resolve.ObjectVariable{Path: []string{fmt.Sprintf("f%d", dk)}, Renderer: resolve.NewJSONVariableRenderer()})
			fmt.Fprintf(&sb, `{"d":%d,"v":%s}`, d, name)
		}
		sb.WriteString("]}")
		if multi && f.Ent >= 0 {
			src := fmt.Sprintf(`query($representations: [_Any!]!){_entities(representations: $representations){... on T%d {__typename field%d}}}`, f.Ent, key)
			doc, rep := astparser.ParseGraphqlDocumentString(src)
			if rep.HasErrors() {
				panic(rep.Error())
			}
			sfetch := &resolve.SingleFetch{
				FetchDependencies: resolve.FetchDependencies{FetchID: f.ID, DependsOnFetchIDs: append([]int{}, f.Deps...)},
				Info:              &resolve.FetchInfo{DataSourceID: fmt.Sprintf("sg%d", f.Ent), DataSourceName: fmt.Sprintf("sg%d", f.Ent), OperationType: ast.OperationTypeQuery},
				FetchConfiguration: resolve.FetchConfiguration{
					Input:          `{"method":"POST","url":"http://sg` + fmt.Sprint(f.Ent) + `","body":{"query":"` + src + `","variables":{"representations":[$$0$$]}}}`,
					Variables:      resolve.NewVariables(resolve.NewResolvableObjectVariable(&resolve.Object{})),
					DataSource:     &c08DS{id: f.ID},
					PostProcessing: resolve.PostProcessingConfiguration{MergePath: []string{fmt.Sprintf("m%d", key)}},
					SubgraphOperation: &resolve.SubgraphOperation{
						Document:  &doc,
						Variables: []resolve.SubgraphVariable{{Name: "representations", Value: []byte("[$$0$$]")}},
						Envelope:  resolve.SubgraphRequestEnvelope{Method: "POST", URL: "http://sg" + fmt.Sprint(f.Ent)},
					},
					RequiresEntityBatchFetch: true,
				},
			}
			items[i] = resolve.FetchItemWithPath(sfetch, "items")
			continue
		}
		items[i] = &resolve.FetchItem{Fetch: &resolve.SingleFetch{
			FetchDependencies: resolve.FetchDependencies{FetchID: f.ID, DependsOnFetchIDs: append([]int{}, f.Deps...)},
			FetchConfiguration: resolve.FetchConfiguration{
				Input:          sb.String(),
				Variables:      vars,
				DataSource:     &c08DS{id: f.ID, ctrl: ctrl},
				PostProcessing: resolve.PostProcessingConfiguration{SelectResponseDataPath: []string{"data"}},
			},
			Info: &resolve.FetchInfo{DataSourceID: fmt.Sprintf("ds%d", f.ID), DataSourceName: fmt.Sprintf("ds%d", f.ID), OperationType: 0},
		}}
		fields = append(fields, &resolve.Field{Name: []byte(fmt.Sprintf("f%d", key)), Value: &resolve.String{Path: []string{fmt.Sprintf("f%d", key)}, Nullable: true}})
	}
	return &plan.SynchronousResponsePlan{Response: &resolve.GraphQLResponse{
		RawFetches: items,
		Data:       &resolve.Object{Fields: fields},
		Info:       &resolve.GraphQLResponseInfo{OperationType: 0},
	}}
}

func c08Export(n *resolve.FetchTreeNode) *c08Tree {
	if n == nil {
		return nil
	}
	switch n.Kind {
	case resolve.FetchTreeNodeKindSingle:
		if m, ok := n.Item.Fetch.(*resolve.MultiEntityFetch); ok {
			return &c08Tree{K: "single", ID: m.FetchID, M: append([]int{}, m.MergedFetchIDs...)}
		}
		return &c08Tree{K: "single", ID: n.Item.Fetch.Dependencies().FetchID}
	case resolve.FetchTreeNodeKindSequence, resolve.FetchTreeNodeKindParallel:
		t := &c08Tree{K: "seq"}
		if n.Kind == resolve.FetchTreeNodeKindParallel {
			t.K = "par"
		}
		for _, c := range n.ChildNodes {
			if e := c08Export(c); e != nil {
				t.C = append(t.C, e)
			}
		}
		return t
	}
	return &c08Tree{K: "unknown:" + string(n.Kind)}
}

type c08Opts struct {
	Scheduler bool `json:"scheduler"`
	NoDedupe  bool `json:"noDedupe"`
	Multi     bool `json:"multiFetch"`
}

func (o c08Opts) processor() *postprocess.Processor {
	var opts []postprocess.ProcessorOption
	if o.Scheduler {
		opts = append(opts, postprocess.EnableScheduleFetches())
	}
	if o.NoDedupe {
		opts = append(opts, postprocess.DisableDeduplicateSingleFetches())
	}
	if o.Multi {
		opts = append(opts, postprocess.EnableMultiFetch())
	}
	return postprocess.NewProcessor(opts...)
}

func c08Process(fs []c08Fetch, o c08Opts, ctrl *c08Ctrl) (p *plan.SynchronousResponsePlan, tree *c08Tree, panicked any) {
	return c08ProcessWith(o.processor(), fs, o, ctrl)
}

func c08ProcessWith(proc *postprocess.Processor, fs []c08Fetch, o c08Opts, ctrl *c08Ctrl) (p *plan.SynchronousResponsePlan, tree *c08Tree, panicked any) {
	defer func() {
		if r := recover(); r != nil {
			panicked = r
		}
	}()
	p = c08BuildPlan(fs, ctrl, o.Multi)
	proc.Process(p)
	return p, c08Export(p.Response.Fetches), nil
}

// the expected dependency relation over the LEAVES of the produced tree: a merged (multi entity) leaf
// serves all its members, reads what any member reads, and stands for every member in others' dependencies
func c08LeafDeps(t *c08Tree, deps map[int][]int, known []int) (map[int][]int, []int) {
	rep := map[int]int{}
	var collect func(n *c08Tree)
	collect = func(n *c08Tree) {
		if n == nil {
			return
		}
		for _, m := range n.M {
			rep[m] = n.ID
		}
		for _, c := range n.C {
			collect(c)
		}
	}
	collect(t)
	if len(rep) == 0 {
		return deps, known
	}
	r := func(i int) int {
		if x, ok := rep[i]; ok {
			return x
		}
		return i
	}
	nd := map[int][]int{}
	nk := []int{}
	for _, k := range known {
		rk := r(k)
		if !containsInt(nk, rk) {
			nk = append(nk, rk)
		}
		for _, d := range deps[k] {
			if rd := r(d); rd != rk && !containsInt(nd[rk], rd) {
				nd[rk] = append(nd[rk], rd)
			}
		}
	}
	sort.Ints(nk)
	return nd, nk
}

// independent Go oracle: before-set walk over the exported tree
func c08OracleTree(t *c08Tree, deps map[int][]int, known []int) string {
	isKnown := map[int]bool{}
	for _, k := range known {
		isKnown[k] = true
	}
	seen := map[int]int{}
	var walk func(n *c08Tree, before map[int]bool) ([]int, string)
	walk = func(n *c08Tree, before map[int]bool) ([]int, string) {
		switch n.K {
		case "single":
			if !isKnown[n.ID] {
				return nil, fmt.Sprintf("fetch %d in the tree is not a fetch of the plan", n.ID)
			}
			seen[n.ID]++
			for _, d := range deps[n.ID] {
				if isKnown[d] && !before[d] {
					return nil, fmt.Sprintf("fetch %d can be issued before its dependency %d has been merged", n.ID, d)
				}
			}
			return []int{n.ID}, ""
		case "par":
			var ids []int
			for _, c := range n.C {
				ci, e := walk(c, before)
				if e != "" {
					return nil, e
				}
				ids = append(ids, ci...)
			}
			return ids, ""
		case "seq":
			av := map[int]bool{}
			for k := range before {
				av[k] = true
			}
			var ids []int
			for _, c := range n.C {
				ci, e := walk(c, av)
				if e != "" {
					return nil, e
				}
				for _, i := range ci {
					av[i] = true
				}
				ids = append(ids, ci...)
			}
			return ids, ""
		}
		return nil, "unexpected node kind " + n.K
	}
	if t == nil {
		if len(known) == 0 {
			return ""
		}
		return "no fetch tree"
	}
	if _, e := walk(t, map[int]bool{}); e != "" {
		return e
	}
	for _, k := range known {
		if seen[k] != 1 {
			return fmt.Sprintf("fetch %d appears %d times in the execution order", k, seen[k])
		}
	}
	return ""
}

func c08DepsJSON(deps map[int][]int, known []int) [][2]any {
	out := [][2]any{}
	for _, k := range known {
		d := deps[k]
		if d == nil {
			d = []int{}
		}
		out = append(out, [2]any{k, d})
	}
	return out
}

// ---- gated execution through the real loader -------------------------------------------------------

// events of the two channels are ordered by a shared sequence number taken right before the send: a select picks at
// random among ready channels, so the order of receipt says nothing about the order in which they happened
type c08Ev struct {
	id  int
	ds  string
	seq int64
}

var c08Seq int64

type c08Ctrl struct {
	mu      sync.Mutex
	started chan c08Ev
	release map[int]chan struct{}
	inputs  map[int]string
	values  map[int]string
	fail    map[int]bool
}

func newC08Ctrl(fs []c08Fetch) *c08Ctrl {
	c := &c08Ctrl{started: make(chan c08Ev, 64), release: map[int]chan struct{}{}, inputs: map[int]string{}, values: map[int]string{}, fail: map[int]bool{}}
	for _, f := range fs {
		c.release[f.ID] = make(chan struct{})
	}
	return c
}

var c08DepRe = regexp.MustCompile(`\{"d":(\d+),"v":("[^"]*"|null)\}`)

func (c *c08Ctrl) load(id int, input []byte) ([]byte, error) {
	c.mu.Lock()
	c.inputs[id] = string(input)
	c.mu.Unlock()
	c.started <- c08Ev{id: id, seq: atomic.AddInt64(&c08Seq, 1)}
	<-c.release[id]
	// the value of a fetch is a function of its key and of the dependency values it was given
	var in struct {
		Key  int `json:"key"`
		Deps []struct {
			D int     `json:"d"`
			V *string `json:"v"`
		} `json:"deps"`
	}
	if err := json.Unmarshal(input, &in); err != nil {
		return nil, fmt.Errorf("fake subgraph: request body is not JSON: %q", input)
	}
	parts := []string{}
	for _, d := range in.Deps {
		if d.V == nil {
			parts = append(parts, fmt.Sprintf("%d=MISSING", d.D))
		} else {
			parts = append(parts, fmt.Sprintf("%d=%s", d.D, *d.V))
		}
	}
	v := fmt.Sprintf("v%d[%s]", in.Key, strings.Join(parts, ";"))
	c.mu.Lock()
	c.values[id] = v
	c.mu.Unlock()
	return []byte(fmt.Sprintf(`{"data":{"f%d":%q}}`, in.Key, v)), nil
}

type c08Hooks struct{ finished chan c08Ev }

func (h *c08Hooks) OnLoad(ctx context.Context, ds resolve.DataSourceInfo) context.Context { return ctx }
func (h *c08Hooks) OnFinished(ctx context.Context, ds resolve.DataSourceInfo, info *resolve.ResponseInfo) {
	h.finished <- c08Ev{ds: ds.ID, seq: atomic.AddInt64(&c08Seq, 1)}
}

// enabled(tree, done, started): the fetches whose start the tree semantics allows now
func c08Enabled(t *c08Tree, done map[int]bool) (enabled []int, finished bool) {
	switch t.K {
	case "single":
		if done[t.ID] {
			return nil, true
		}
		return []int{t.ID}, false
	case "par":
		fin := true
		for _, c := range t.C {
			e, f := c08Enabled(c, done)
			enabled = append(enabled, e...)
			fin = fin && f
		}
		return enabled, fin
	case "seq":
		for _, c := range t.C {
			e, f := c08Enabled(c, done)
			if !f {
				return e, false
			}
		}
		return nil, true
	}
	return nil, true
}

type c08Run struct {
	Response string         `json:"response"`
	Trace    []string       `json:"trace"`
	Inputs   map[int]string `json:"inputs"`
	Err      string         `json:"err,omitempty"`
}

// c08Execute runs the processed plan on the real resolver, releasing started fetches one at a time in a
// random order; every wait is on an event (start reported / merge finished), never on elapsed time.
func c08Execute(fs []c08Fetch, o c08Opts, r *rand.Rand) (run c08Run, tree *c08Tree, viol string) {
	ctrl := newC08Ctrl(fs)
	p, tree, pan := c08Process(fs, o, ctrl)
	if pan != nil {
		return run, tree, fmt.Sprint("panic in postprocess: ", pan)
	}
	if tree == nil {
		return run, tree, ""
	}
	ctx, cancel := context.WithCancel(context.Background())
	defer cancel()
	res := resolve.New(ctx, resolve.ResolverOptions{MaxConcurrency: 64, PropagateSubgraphErrors: true})
	rctx := resolve.NewContext(ctx)
	hooks := &c08Hooks{finished: make(chan c08Ev, 64)}
	rctx.LoaderHooks = hooks
	var buf bytes.Buffer
	doneCh := make(chan error, 1)
	go func() {
		defer func() {
			if p := recover(); p != nil {
				doneCh <- fmt.Errorf("panic: %v", p)
			}
		}()
		_, err := res.ResolveGraphQLResponse(rctx, p.Response, nil, &buf)
		doneCh <- err
	}()
	done := map[int]bool{}
	started := map[int]bool{}
	released := map[int]bool{}
	watchdog := time.After(20 * time.Second)
	for {
		enabled, fin := c08Enabled(tree, done)
		if fin {
			break
		}
		// wait until every enabled fetch has reported its start (event-driven)
		for {
			all := true
			for _, e := range enabled {
				if !started[e] {
					all = false
				}
			}
			if all {
				break
			}
			select {
			case ev := <-ctrl.started:
				id := ev.id
				started[id] = true
				run.Trace = append(run.Trace, fmt.Sprintf("start %d", id))
				ok := false
				for _, e := range enabled {
					if e == id {
						ok = true
					}
				}
				if !ok {
					viol = fmt.Sprintf("fetch %d was started although the fetch tree %s does not allow it yet (merged so far: %v)", id, tree, keysOf(done))
				}
			case err := <-doneCh:
				run.Err = fmt.Sprint(err)
				return run, tree, fmt.Sprintf("resolve returned (%v) while fetches %v were still expected to start", err, enabled)
			case <-watchdog:
				return run, tree, fmt.Sprintf("watchdog: fetches %v never started (merged so far: %v)", enabled, keysOf(done))
			}
		}
		// release one started fetch, wait until it has been merged
		var cands []int
		for id := range started {
			if !released[id] {
				cands = append(cands, id)
			}
		}
		sort.Ints(cands)
		id := cands[r.Intn(len(cands))]
		released[id] = true
		close(ctrl.release[id])
		select {
		case fev := <-hooks.finished:
			if fev.ds != fmt.Sprintf("ds%d", id) {
				viol = fmt.Sprintf("released fetch %d but %s finished", id, fev.ds)
			}
			done[id] = true
			run.Trace = append(run.Trace, fmt.Sprintf("done %d", id))
		case sev := <-ctrl.started:
			// a fetch started between release and merge of another one: only legal if the merge was reported first
			id2 := sev.id
			fev := <-hooks.finished
			done[id] = true
			if fev.seq < sev.seq {
				// (both events were ready; the merge happened first — the start is judged by the next round)
				run.Trace = append(run.Trace, fmt.Sprintf("done %d", id), fmt.Sprintf("start %d", id2))
				started[id2] = true
				enabled2, _ := c08Enabled(tree, done)
				ok := false
				for _, e := range enabled2 {
					if e == id2 {
						ok = true
					}
				}
				if !ok {
					viol = fmt.Sprintf("fetch %d was started although the fetch tree %s does not allow it yet (merged so far: %v)", id2, tree, keysOf(done))
				}
			} else {
				started[id2] = true
				run.Trace = append(run.Trace, fmt.Sprintf("start %d", id2), fmt.Sprintf("done %d", id))
				viol = fmt.Sprintf("fetch %d started before the released fetch %d was merged, although every enabled fetch had already started", id2, id)
			}
		case <-watchdog:
			return run, tree, fmt.Sprintf("watchdog: released fetch %d never finished", id)
		}
	}
	select {
	case err := <-doneCh:
		if err != nil {
			run.Err = err.Error()
		}
	case <-watchdog:
		return run, tree, "watchdog: resolve did not return after every fetch was merged"
	}
	run.Response = buf.String()
	ctrl.mu.Lock()
	run.Inputs = map[int]string{}
	for k, v := range ctrl.inputs {
		run.Inputs[k] = v
	}
	ctrl.mu.Unlock()
	return run, tree, viol
}

func keysOf(m map[int]bool) []int {
	out := []int{}
	for k := range m {
		out = append(out, k)
	}
	sort.Ints(out)
	return out
}

// ---- the checks -----------------------------------------------------------------------------------

func c08CheckOrganiser(run *Run, fs []c08Fetch, o c08Opts) {
	in := map[string]any{"fetches": fs, "options": o}
	_, tree, pan := c08Process(fs, o, nil)
	if pan != nil {
		run.Violate(Violation{Kind: "oracle", Clause: "organiser_no_panic", Input: in, Detail: fmt.Sprint(pan)}, "")
		return
	}
	deps, known, _ := c08Effective(fs, !o.NoDedupe)
	feats := []string{fmt.Sprintf("n=%d", min(len(fs), 12))}
	if o.Scheduler {
		feats = append(feats, "scheduler")
	} else {
		feats = append(feats, "legacy")
	}
	nEdges := 0
	for _, d := range deps {
		nEdges += len(d)
	}
	key := ""
	if nEdges > 0 && len(known) > 1 {
		key = jsonStr(in)
	}
	if tree != nil && strings.Contains(tree.String(), "P(") {
		feats = append(feats, "has_parallel")
	}
	run.Count(key, feats...)
	if o.Multi && tree != nil && strings.Contains(tree.String(), "Multi") {
		feats = append(feats, "has_merged_leaf")
		run.Feat("has_merged_leaf")
	}
	deps, known = c08LeafDeps(tree, deps, known)
	if msg := c08OracleTree(tree, deps, known); msg != "" {
		run.Violate(Violation{Kind: "oracle", Clause: "dependencies_respected_in_every_schedule", Input: in, Impl: map[string]any{"tree": tree.String()}, Detail: msg}, "")
		return
	}
	if tree == nil {
		return
	}
	// the proved checker (Lean `validate`, Props.C08.validate_sound) on the produced tree
	m, err := run.Pool.Ask("c08.validate", map[string]any{"tree": tree, "deps": c08DepsJSON(deps, known), "known": known})
	if err != nil {
		run.Violate(Violation{Kind: "correspondence", Clause: "driver", Input: in, Detail: err.Error()}, "")
		return
	}
	var vr struct {
		OK  bool  `json:"ok"`
		IDs []int `json:"ids"`
	}
	json.Unmarshal(m, &vr)
	if !vr.OK {
		run.Violate(Violation{Kind: "correspondence", Clause: "c08.validate (proved checker) rejects a tree the Go oracle accepts", Input: in, Impl: map[string]any{"tree": tree.String()}, Model: decodeRaw(m)}, "")
	}
	// model correspondence for the legacy pipeline (wave structure)
	if !o.Scheduler && !o.Multi {
		eff := [][2]any{}
		for _, f := range fs { // order as given to the organiser, after de-duplication
			if _, ok := deps[f.ID]; ok || containsInt(known, f.ID) {
				if containsInt(known, f.ID) {
					d := deps[f.ID]
					if d == nil {
						d = []int{}
					}
					eff = append(eff, [2]any{f.ID, d})
				}
			}
		}
		m, err := run.Pool.Ask("c08.legacy", map[string]any{"fetches": eff})
		if err != nil {
			run.Violate(Violation{Kind: "correspondence", Clause: "driver", Input: in, Detail: err.Error()}, "")
			return
		}
		implWaves := [][]int{}
		if tree.K == "single" {
			implWaves = append(implWaves, []int{tree.ID})
		} else {
			for _, c := range tree.C {
				if c.K == "single" {
					implWaves = append(implWaves, []int{c.ID})
				} else {
					w := []int{}
					for _, cc := range c.C {
						w = append(w, cc.ID)
					}
					implWaves = append(implWaves, w)
				}
			}
		}
		if !sameJSON(map[string]any{"waves": implWaves}, m) {
			run.Violate(Violation{Kind: "correspondence", Clause: "c08.legacy model≠impl", Input: in, Impl: implWaves, Model: decodeRaw(m)}, "")
		}
	}
	if len(fs) >= 4 && len(fs) <= 7 {
		run.Sample(map[string]any{"fetches": fs, "options": o, "tree": tree.String()})
	}
}

func containsInt(xs []int, x int) bool {
	for _, y := range xs {
		if y == x {
			return true
		}
	}
	return false
}

func c08CheckLoader(run *Run, fs []c08Fetch, o c08Opts, r *rand.Rand, orders int) {
	in := map[string]any{"fetches": fs, "options": o}
	_, known, surv := c08Effective(fs, !o.NoDedupe)
	var first *c08Run
	for k := 0; k < orders; k++ {
		res, tree, viol := c08Execute(fs, o, r)
		run.mu.Lock()
		run.TracesVsImpl++
		run.mu.Unlock()
		run.Count("", "loader_run")
		if viol != "" {
			run.Violate(Violation{Kind: "oracle", Clause: "loader_follows_tree_semantics", Input: in, Impl: map[string]any{"tree": tree.String(), "run": res}, Detail: viol}, "")
			return
		}
		if tree == nil {
			return
		}
		if res.Err != "" {
			run.Violate(Violation{Kind: "oracle", Clause: "resolve_error", Input: in, Impl: res, Detail: res.Err}, "")
			return
		}
		// every request was built after all of its dependencies had been merged: it carries their values
		for _, f := range fs {
			id := f.ID
			if !containsInt(known, id) {
				continue
			}
			for _, d := range f.Deps { // labels in the request are the originally declared ids
				if s, ok := surv[d]; !ok || !containsInt(known, s) {
					continue
				}
				if !strings.Contains(res.Inputs[id], fmt.Sprintf(`{"d":%d,"v":"`, d)) {
					run.Violate(Violation{Kind: "oracle", Clause: "request_built_before_dependency_merged", Input: in,
						Impl: map[string]any{"tree": tree.String(), "run": res}, Detail: fmt.Sprintf("request of fetch %d does not carry the value of its dependency %d: %s", id, d, res.Inputs[id])}, "")
					return
				}
			}
		}
		if first == nil {
			first = &res
		} else if first.Response != res.Response {
			run.Violate(Violation{Kind: "oracle", Clause: "response_independent_of_completion_order", Input: in,
				Impl: map[string]any{"tree": tree.String(), "run_a": first, "run_b": res}}, "")
			return
		}
	}
}

func runC08(run *Run, replay string) Spec {
	spec := Spec{
		Level: "proof",
		Rule: "random dependency DAGs (1-11 fetches, non-contiguous ids, edge density 0-0.6, dependencies on ids outside the tree, exact duplicates, random presentation order) through postprocess.Processor.Process " +
			"with {legacy waves, scheduler} x {dedupe on, off}; every produced tree is (a) judged by an independent Go before-set oracle, (b) fed to the proved Lean checker validate, (c) for the legacy path compared with the Lean model of " +
			"orderSequenceByDependencies+createParallelNodes; a subset is executed on the real Resolver/Loader with gated fake data sources whose requests carry their dependencies' values, several random completion orders each. " +
			"a further stream lets a third of the requests of layered DAGs fail at the transport level and holds the requests of every wave at a spin barrier, so that their completions run in the same instant on several cores, repeated; " +
			"no request that reads from a failed or skipped one may be issued, every other exactly once, and the response (data; errors as a multiset) must be the one of the one-at-a-time run. " +
			"non-trivial = at least 2 fetches and 1 edge; distinct = distinct (fetch list, options)",
		TrustedBase: []string{"Lean 4 kernel", "axioms: propext, Classical.choice, Quot.sound only (audited)",
			"Lean model GqlVerif.Plan.Sched: binary-nested fetch trees, happens-before semantics of Sequence/Parallel/Single, validate = mirror of validateSchedule",
			"the happens-before semantics is the reading of resolveSerial/resolveParallel/resolveSingle (checked by regenerated call skeletons and by the gated loader runs: a fetch that starts when the tree does not allow it is reported)",
			"Go harness vh (DAG generator, effective-dependency computation after de-duplication, gate controller)"},
		Assumptions: []string{"fetch ids are unique in a plan", "the dependency relation handed to the checker is the generated one (after the documented de-duplication rewiring), not the one stored in the produced tree",
			"real goroutine interleavings below the prepare/load/merge granularity are not enumerated: the failing-requests stream samples them (completions released in the same instant, repeated), it does not exhaust them"},
	}
	if replay != "" {
		b, err := os.ReadFile(replay)
		if err == nil {
			var f struct {
				Violation struct {
					Input struct {
						Fetches []c08Fetch `json:"fetches"`
						Options c08Opts    `json:"options"`
					} `json:"input"`
				} `json:"violation"`
			}
			var ff struct {
				Violation struct {
					Input c08FailCase `json:"input"`
				} `json:"violation"`
			}
			if json.Unmarshal(b, &ff) == nil && ff.Violation.Input.Stream == "failing_requests" {
				c := ff.Violation.Input
				c.Reps = max(c.Reps, 2000) // the failure needs two completions in the same instant: repeat
				c08CheckFail(run, c)
			} else if json.Unmarshal(b, &f) == nil {
				c08CheckOrganiser(run, f.Violation.Input.Fetches, f.Violation.Input.Options)
				c08CheckLoader(run, f.Violation.Input.Fetches, f.Violation.Input.Options, rand.New(rand.NewSource(run.Seed)), 4)
			}
		}
		return spec
	}
	n, nLoader := 20_000, 400
	if run.Tier == "thorough" {
		n, nLoader = 1_500_000, 20_000
	}
	allOpts := []c08Opts{{false, false, false}, {true, false, false}, {false, true, false}, {true, true, false}, {false, false, true}, {true, false, true}}
	parallelFor(n, 12, func(i int) {
		if run.NViolations() >= 20 {
			return
		}
		r := subRng(run.Seed, i)
		fs := c08GenDAG(r)
		for _, o := range allOpts {
			c08CheckOrganiser(run, fs, o)
		}
		// history: one Processor instance handles several plans in a row and must treat each like a fresh one
		if i%8 == 0 {
			o := allOpts[r.Intn(len(allOpts))]
			proc := o.processor()
			for k := 0; k < 3; k++ {
				fk := c08GenDAG(r)
				_, reused, p1 := c08ProcessWith(proc, fk, o, nil)
				_, fresh, p2 := c08Process(fk, o, nil)
				run.Count("", "processor_reuse")
				if p1 != nil || p2 != nil || reused.String() != fresh.String() {
					run.Violate(Violation{Kind: "oracle", Clause: "plan_depends_on_previous_plans_of_the_processor", Input: map[string]any{"fetches": fk, "options": o, "position_in_history": k},
						Impl: map[string]any{"reused_processor": reused.String(), "fresh_processor": fresh.String(), "panic": fmt.Sprint(p1, p2)}}, "")
					return
				}
			}
		}
	})
	parallelFor(nLoader, 8, func(i int) {
		if run.NViolations() >= 20 {
			return
		}
		r := subRng(run.Seed+7, i)
		fs := c08GenDAG(r)
		if len(fs) > 8 {
			fs = nil
			return
		}
		c08CheckLoader(run, fs, allOpts[r.Intn(4)], r, 3)
	})
	// failing requests, the requests of a wave completing in the same instant (see c08fail.go)
	nFail, reps := 150, 25
	if run.Tier == "thorough" {
		nFail, reps = 4000, 60
	}
	parallelFor(nFail, 2, func(i int) {
		if run.NViolations() >= 20 {
			return
		}
		c := c08GenFailCase(subRng(run.Seed+13, i))
		c.Reps = reps
		c08CheckFail(run, c)
	})
	return spec
}
