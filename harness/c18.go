package main

// C18 — upstream subscription connections are multiplexed without cross-talk.
//
// The real subscriptionclient.Client talks graphql-transport-ws to a scripted in-process upstream (httptest +
// coder/websocket).  A scenario is a sequence of subscribe / upstream message / unsubscribe / connection drop operations
// over 2–6 subscribers and five option tuples that differ from the first in exactly one component of the connection key (path, header
// value, a second value of the same header, init payload).  Every handler call is recorded; the Lean model Proto.WsClient runs the same sequence and must
// predict, per subscriber, exactly the delivered events in order, the number of upstream connections ever opened and
// the connections alive at the end.  Two race scenarios (cancel while a shared dial is in flight; last unsubscribe
// against a new subscribe) are judged by model-independent oracles.

import (
	"context"
	"encoding/json"
	"fmt"
	"math/rand"
	"net/http"
	"net/http/httptest"
	"os"
	"regexp"
	"strings"
	"sync"
	"time"

	"github.com/coder/websocket"

	subscriptionclient "github.com/wundergraph/graphql-go-tools/v2/pkg/engine/datasource/graphql_datasource/subscriptionclient"
	"github.com/wundergraph/graphql-go-tools/v2/pkg/engine/datasource/graphql_datasource/subscriptionclient/common"
)

func init() { props["C18"] = runC18 }

// distinct model states and model transitions visited by the scenarios of this run (evidence: states / transitions)
var c18StatesMu sync.Mutex
var c18States = map[string]struct{}{}
var c18Transitions int

func c18NoteStates(run *Run, fps []string) {
	c18StatesMu.Lock()
	for _, f := range fps {
		c18States[f] = struct{}{}
	}
	c18Transitions += len(fps)
	run.mu.Lock()
	run.Extra["states"] = len(c18States) + 1 // plus the initial state
	run.Extra["transitions"] = c18Transitions
	run.mu.Unlock()
	c18StatesMu.Unlock()
}

// ---- the scripted upstream ------------------------------------------------------------------------------------------------

type c18UpConn struct {
	idx    int
	ws     *websocket.Conn
	wmu    sync.Mutex
	path   string
	header string
	init   string
	closed bool
}

type c18Upstream struct {
	srv   *httptest.Server
	mu    sync.Mutex
	conns []*c18UpConn
	names map[string]struct {
		conn *c18UpConn
		id   string
	} // subscription name -> where it is registered upstream
	unsubbed map[string]bool
	ackGate  chan struct{} // when non-nil, connection_ack waits for it
	problems []string
}

var c18NameRe = regexp.MustCompile(`subscription \{ (s\d+) \}`)

func newC18Upstream() *c18Upstream {
	u := &c18Upstream{names: map[string]struct {
		conn *c18UpConn
		id   string
	}{}, unsubbed: map[string]bool{}}
	u.srv = httptest.NewServer(http.HandlerFunc(func(w http.ResponseWriter, r *http.Request) {
		ws, err := websocket.Accept(w, r, &websocket.AcceptOptions{Subprotocols: []string{"graphql-transport-ws"}})
		if err != nil {
			return
		}
		c := &c18UpConn{ws: ws, path: r.URL.Path, header: r.Header.Get("X-Tuple")}
		u.mu.Lock()
		c.idx = len(u.conns)
		u.conns = append(u.conns, c)
		gate := u.ackGate
		u.mu.Unlock()
		ctx := context.Background()
		for {
			_, data, err := ws.Read(ctx)
			if err != nil {
				u.mu.Lock()
				c.closed = true
				u.mu.Unlock()
				return
			}
			var m struct {
				ID      string          `json:"id"`
				Type    string          `json:"type"`
				Payload json.RawMessage `json:"payload"`
			}
			if json.Unmarshal(data, &m) != nil {
				continue
			}
			switch m.Type {
			case "connection_init":
				u.mu.Lock()
				c.init = string(m.Payload)
				u.mu.Unlock()
				if gate != nil {
					<-gate
				}
				c.write(`{"type":"connection_ack"}`)
			case "subscribe":
				var p struct {
					Query string `json:"query"`
				}
				_ = json.Unmarshal(m.Payload, &p)
				if sm := c18NameRe.FindStringSubmatch(p.Query); sm != nil {
					u.mu.Lock()
					u.names[sm[1]] = struct {
						conn *c18UpConn
						id   string
					}{c, m.ID}
					u.mu.Unlock()
				}
			case "complete":
				u.mu.Lock()
				for n, v := range u.names {
					if v.conn == c && v.id == m.ID {
						u.unsubbed[n] = true
					}
				}
				u.mu.Unlock()
			case "ping":
				c.write(`{"type":"pong"}`)
			}
		}
	}))
	return u
}

func (c *c18UpConn) write(s string) {
	c.wmu.Lock()
	defer c.wmu.Unlock()
	ctx, cancel := context.WithTimeout(context.Background(), 2*time.Second)
	defer cancel()
	_ = c.ws.Write(ctx, websocket.MessageText, []byte(s))
}

func (u *c18Upstream) registered(name string) bool {
	u.mu.Lock()
	defer u.mu.Unlock()
	_, ok := u.names[name]
	return ok
}

func (u *c18Upstream) send(name, kind string, n int) bool {
	u.mu.Lock()
	v, ok := u.names[name]
	u.mu.Unlock()
	if !ok {
		return false
	}
	switch kind {
	case "data":
		v.conn.write(fmt.Sprintf(`{"id":%q,"type":"next","payload":{"data":{"n":%d}}}`, v.id, n))
	case "error":
		v.conn.write(fmt.Sprintf(`{"id":%q,"type":"error","payload":[{"message":"upstream error"}]}`, v.id))
	case "complete":
		v.conn.write(fmt.Sprintf(`{"id":%q,"type":"complete"}`, v.id))
	}
	return true
}

func (u *c18Upstream) dropConnOf(name string) bool {
	u.mu.Lock()
	v, ok := u.names[name]
	u.mu.Unlock()
	if !ok {
		return false
	}
	_ = v.conn.ws.CloseNow()
	return true
}

func (u *c18Upstream) accepted() int {
	u.mu.Lock()
	defer u.mu.Unlock()
	return len(u.conns)
}

func (u *c18Upstream) alive() int {
	u.mu.Lock()
	defer u.mu.Unlock()
	n := 0
	for _, c := range u.conns {
		if !c.closed {
			n++
		}
	}
	return n
}

func (u *c18Upstream) close() {
	u.mu.Lock()
	conns := append([]*c18UpConn{}, u.conns...)
	u.mu.Unlock()
	for _, c := range conns {
		_ = c.ws.CloseNow()
	}
	u.srv.Close()
}

// ---- scenarios --------------------------------------------------------------------------------------------------------------

type c18Op struct {
	Op   string `json:"op"` // subscribe | upstreamSub | unsubscribe | dropSub
	Sub  int    `json:"sub"`
	Key  int    `json:"key,omitempty"`
	Kind string `json:"kind,omitempty"`
	N    int    `json:"n,omitempty"`
}

type c18Scenario struct {
	Subscribers int     `json:"subscribers"`
	Ops         []c18Op `json:"ops"`
}

// four option tuples that differ from tuple 0 in exactly one component of the connection key
func c18Options(base string, k int) common.Options {
	o := common.Options{Endpoint: strings.Replace(base, "http://", "ws://", 1) + "/graphql", Transport: common.TransportWS, WSSubprotocol: common.SubprotocolGraphQLTransportWS,
		Headers: http.Header{"X-Tuple": []string{"h0"}}, InitPayload: map[string]any{"token": "i0"}}
	switch k {
	case 1:
		o.Endpoint = strings.Replace(base, "http://", "ws://", 1) + "/other"
	case 2:
		o.Headers = http.Header{"X-Tuple": []string{"h1"}}
	case 3:
		o.InitPayload = map[string]any{"token": "i1"}
	case 4:
		// a multi-valued header with the same first value
		o.Headers = http.Header{"X-Tuple": []string{"h0", "second-value"}}
	}
	return o
}

func c18GenScenario(r *rand.Rand) *c18Scenario {
	sc := &c18Scenario{Subscribers: 2 + r.Intn(5)}
	state := make([]int, sc.Subscribers) // 0 = not yet, 1 = subscribed, 2 = over
	nmsg := 0
	steps := 8 + r.Intn(25)
	for i := 0; i < steps; i++ {
		s := r.Intn(sc.Subscribers)
		switch {
		case state[s] == 0:
			sc.Ops = append(sc.Ops, c18Op{Op: "subscribe", Sub: s, Key: r.Intn(5) % (1 + r.Intn(5))})
			state[s] = 1
		default:
			switch x := r.Intn(12); {
			case x < 7:
				nmsg++
				sc.Ops = append(sc.Ops, c18Op{Op: "upstreamSub", Sub: s, Kind: "data", N: nmsg})
			case x == 7:
				sc.Ops = append(sc.Ops, c18Op{Op: "upstreamSub", Sub: s, Kind: "complete"})
				state[s] = 2
			case x == 8:
				sc.Ops = append(sc.Ops, c18Op{Op: "upstreamSub", Sub: s, Kind: "error"})
				state[s] = 2
			case x == 9 || x == 10:
				sc.Ops = append(sc.Ops, c18Op{Op: "unsubscribe", Sub: s})
				state[s] = 2
			default:
				if state[s] == 1 {
					sc.Ops = append(sc.Ops, c18Op{Op: "dropSub", Sub: s})
					// (everybody on that connection is over; the model knows who)
				}
			}
		}
	}
	return sc
}

type c18Recorder struct {
	mu     sync.Mutex
	events [][]string
}

func (rec *c18Recorder) count(s int) int {
	rec.mu.Lock()
	defer rec.mu.Unlock()
	return len(rec.events[s])
}

func c18Wait(cond func() bool, d time.Duration) bool {
	deadline := time.Now().Add(d)
	for time.Now().Before(deadline) {
		if cond() {
			return true
		}
		time.Sleep(500 * time.Microsecond)
	}
	return cond()
}

func c18RunScenario(run *Run, sc *c18Scenario) {
	in := map[string]any{"scenario": sc}
	up := newC18Upstream()
	defer up.close()
	ctx, cancel := context.WithCancel(context.Background())
	defer cancel()
	client := subscriptionclient.New(ctx, subscriptionclient.Config{})
	rec := &c18Recorder{events: make([][]string, sc.Subscribers)}
	cancels := make([]func(), sc.Subscribers)
	// the model's expectation
	raw, err := run.Pool.Ask("c18.run", map[string]any{"ops": sc.Ops, "subscribers": sc.Subscribers})
	if err != nil {
		run.Violate(Violation{Kind: "correspondence", Clause: "driver", Input: in, Detail: err.Error()}, "")
		return
	}
	var want struct {
		Dials      int        `json:"dials"`
		Conns      []any      `json:"conns"`
		Delivered  [][]string `json:"delivered"`
		Expect     []int      `json:"expect"`     // per op: how many events the op delivers in the model
		ConnsAfter []int      `json:"connsAfter"` // per op: live connections after the op in the model
		States     []string   `json:"states"`     // per executed model step: the registry part of the state reached
	}
	_ = json.Unmarshal(raw, &want)
	c18NoteStates(run, want.States)
	total := func() int {
		n := 0
		for s := 0; s < sc.Subscribers; s++ {
			n += rec.count(s)
		}
		return n
	}
	for k, op := range sc.Ops {
		before := total()
		exp := 0
		if k < len(want.Expect) {
			exp = want.Expect[k]
		}
		name := fmt.Sprintf("s%d", op.Sub)
		switch op.Op {
		case "subscribe":
			s := op.Sub
			c, err := client.Subscribe(context.Background(), &common.Request{Query: "subscription { " + name + " }"}, c18Options(up.srv.URL, op.Key), func(m *common.Message) {
				ev := ""
				switch m.Type {
				case common.MessageTypeData:
					var d struct {
						N int `json:"n"`
					}
					if m.Payload != nil {
						_ = json.Unmarshal(m.Payload.Data, &d)
					}
					ev = fmt.Sprintf("data:%d", d.N)
				case common.MessageTypeError:
					ev = "error"
				case common.MessageTypeComplete:
					ev = "complete"
				case common.MessageTypeConnectionError:
					ev = "connError"
				default:
					ev = "unknown"
				}
				rec.mu.Lock()
				rec.events[s] = append(rec.events[s], ev)
				rec.mu.Unlock()
			})
			if err != nil {
				run.Violate(Violation{Kind: "oracle", Clause: "subscribe_succeeds", Input: in, Detail: fmt.Sprintf("op %d: Subscribe of subscriber %d fails: %v", k, s, err)}, "")
				return
			}
			cancels[s] = c
			if !c18Wait(func() bool { return up.registered(name) }, 2*time.Second) {
				run.Violate(Violation{Kind: "oracle", Clause: "subscribe_reaches_upstream", Input: in, Detail: fmt.Sprintf("op %d: the upstream never saw the subscribe of %s", k, name)}, "")
				return
			}
		case "upstreamSub":
			up.send(name, op.Kind, op.N)
		case "unsubscribe":
			if cancels[op.Sub] != nil {
				cancels[op.Sub]()
			}
		case "dropSub":
			if exp > 0 { // (the model says the subscriber is still registered: its connection exists)
				up.dropConnOf(name)
			}
		}
		// wait for what the model says this op delivers; when it delivers nothing give a stray delivery time to show up
		if exp > 0 {
			c18Wait(func() bool { return total() >= before+exp }, 2*time.Second)
		} else if op.Op == "upstreamSub" {
			time.Sleep(3 * time.Millisecond)
		}
		// an op that ends the last subscription of a connection closes it right after the handler returned: wait for the
		// client to have done so, as the model has (a subscribe that overtakes the close would legitimately reuse it)
		if k < len(want.ConnsAfter) {
			c18Wait(func() bool { return client.Stats().WSConns == want.ConnsAfter[k] }, time.Second)
		}
	}
	time.Sleep(5 * time.Millisecond)
	rec.mu.Lock()
	got := make([][]string, sc.Subscribers)
	for s := range rec.events {
		got[s] = append([]string{}, rec.events[s]...)
	}
	rec.mu.Unlock()
	for s := 0; s < sc.Subscribers; s++ {
		w := []string{}
		if s < len(want.Delivered) {
			w = want.Delivered[s]
		}
		if strings.Join(got[s], ",") != strings.Join(w, ",") {
			run.Violate(Violation{Kind: "oracle", Clause: "delivered_exactly_in_order", Input: in, Impl: got, Model: want.Delivered,
				Detail: fmt.Sprintf("subscriber %d received [%s]; the upstream sent for it, in order, [%s]", s, strings.Join(got[s], ","), strings.Join(w, ","))}, "")
			return
		}
	}
	if up.accepted() != want.Dials {
		run.Violate(Violation{Kind: "oracle", Clause: "shared_iff_same_key", Input: in, Impl: up.accepted(), Model: want.Dials,
			Detail: fmt.Sprintf("the upstream accepted %d connections; subscriptions with the same endpoint, headers and init payload share one, others do not: %d expected", up.accepted(), want.Dials)}, "")
		return
	}
	// connections alive at the end: exactly those that still carry a subscription
	if !c18Wait(func() bool { return client.Stats().WSConns == len(want.Conns) && up.alive() == len(want.Conns) }, time.Second) {
		run.Violate(Violation{Kind: "oracle", Clause: "connection_outlives_last_subscription", Input: in, Impl: map[string]int{"client": client.Stats().WSConns, "upstream": up.alive()}, Model: len(want.Conns),
			Detail: fmt.Sprintf("at the end the client holds %d and the upstream %d live connections; %d still carry a subscription", client.Stats().WSConns, up.alive(), len(want.Conns))}, "")
		return
	}
	// quiescence: cancel everybody
	for _, c := range cancels {
		if c != nil {
			c()
		}
	}
	if !c18Wait(func() bool { return client.Stats().WSConns == 0 && up.alive() == 0 }, time.Second) {
		run.Violate(Violation{Kind: "oracle", Clause: "connections_drain", Input: in, Impl: map[string]int{"client": client.Stats().WSConns, "upstream": up.alive()},
			Detail: fmt.Sprintf("after every subscriber unsubscribed the client holds %d and the upstream %d live connections", client.Stats().WSConns, up.alive())}, "")
	}
	run.mu.Lock()
	run.TracesVsImpl++
	run.mu.Unlock()
	run.Feat(fmt.Sprintf("dials:%d", min(want.Dials, 4)))
	for _, op := range sc.Ops {
		run.Feat("op:" + op.Op + op.Kind)
	}
}

// ---- races --------------------------------------------------------------------------------------------------------------------

// a subscriber cancels while the connection it started to dial is still being initialised; a second subscriber with the
// same options is waiting for that dial
func c18RaceCancelDuringDial(run *Run, k int) {
	up := newC18Upstream()
	defer up.close()
	up.ackGate = make(chan struct{})
	ctx, cancel := context.WithCancel(context.Background())
	defer cancel()
	client := subscriptionclient.New(ctx, subscriptionclient.Config{})
	opts := c18Options(up.srv.URL, k%5)
	ctxA, cancelA := context.WithCancel(context.Background())
	errA, errB := make(chan error, 1), make(chan error, 1)
	var gotB []string
	var mu sync.Mutex
	go func() {
		_, err := client.Subscribe(ctxA, &common.Request{Query: "subscription { s0 }"}, opts, func(m *common.Message) {})
		errA <- err
	}()
	c18Wait(func() bool { return up.accepted() == 1 }, 2*time.Second)
	go func() {
		_, err := client.Subscribe(context.Background(), &common.Request{Query: "subscription { s1 }"}, opts, func(m *common.Message) {
			mu.Lock()
			gotB = append(gotB, fmt.Sprint(m.Type))
			mu.Unlock()
		})
		errB <- err
	}()
	time.Sleep(5 * time.Millisecond) // B has joined the dial (or will dial itself: both are fine)
	cancelA()
	<-errA
	close(up.ackGate)
	var eB error
	select {
	case eB = <-errB:
	case <-time.After(3 * time.Second):
		run.Violate(Violation{Kind: "oracle", Clause: "cancel_does_not_stall_others", Input: map[string]any{"race": "cancelDuringDial", "tuple": k % 4},
			Detail: "subscriber B is still blocked 3 s after subscriber A, who owned the dial, cancelled and the upstream acknowledged"}, "")
		return
	}
	if eB != nil {
		run.Violate(Violation{Kind: "oracle", Clause: "cancel_does_not_fail_others", Input: map[string]any{"race": "cancelDuringDial", "tuple": k % 4},
			Detail: fmt.Sprintf("subscriber A cancelled while the shared connection was being initialised; subscriber B, who did not cancel, fails with: %v", eB)}, "C18-shared-dial-runs-under-the-first-subscribers-context")
		return
	}
	if !c18Wait(func() bool { return up.registered("s1") }, 2*time.Second) {
		run.Violate(Violation{Kind: "oracle", Clause: "cancel_does_not_fail_others", Input: map[string]any{"race": "cancelDuringDial"}, Detail: "B's Subscribe returned nil but the upstream never saw its subscribe"}, "")
		return
	}
	up.send("s1", "data", 1)
	c18Wait(func() bool { mu.Lock(); defer mu.Unlock(); return len(gotB) > 0 }, 2*time.Second)
	run.Feat("race:cancelDuringDial")
}

// the last subscriber of a connection unsubscribes while a new subscriber with the same options subscribes
func c18RaceLastUnsubscribe(run *Run, k int) {
	up := newC18Upstream()
	defer up.close()
	ctx, cancel := context.WithCancel(context.Background())
	defer cancel()
	client := subscriptionclient.New(ctx, subscriptionclient.Config{})
	opts := c18Options(up.srv.URL, k%5)
	for i := 0; i < 20; i++ {
		nameA, nameB := fmt.Sprintf("s%d", 2*i), fmt.Sprintf("s%d", 2*i+1)
		cA, err := client.Subscribe(context.Background(), &common.Request{Query: "subscription { " + nameA + " }"}, opts, func(m *common.Message) {})
		if err != nil {
			run.Violate(Violation{Kind: "oracle", Clause: "subscribe_succeeds", Input: map[string]any{"race": "lastUnsubscribe"}, Detail: err.Error()}, "")
			return
		}
		c18Wait(func() bool { return up.registered(nameA) }, 2*time.Second)
		var wg sync.WaitGroup
		var errB error
		var cB func()
		wg.Add(2)
		go func() { defer wg.Done(); cA() }()
		go func() {
			defer wg.Done()
			if k%2 == 1 {
				time.Sleep(time.Duration(i*20) * time.Microsecond)
			}
			cB, errB = client.Subscribe(context.Background(), &common.Request{Query: "subscription { " + nameB + " }"}, opts, func(m *common.Message) {})
		}()
		wg.Wait()
		if errB != nil {
			run.Violate(Violation{Kind: "oracle", Clause: "unsubscribe_does_not_fail_others", Input: map[string]any{"race": "lastUnsubscribe", "iteration": i, "tuple": k % 4},
				Detail: fmt.Sprintf("while the last subscriber of a connection unsubscribed, a new subscriber with the same options fails with: %v", errB)}, "C18-new-subscriber-meets-a-closing-connection")
			return
		}
		if cB != nil {
			cB()
		}
		c18Wait(func() bool { return client.Stats().WSConns == 0 }, time.Second)
	}
	run.Feat("race:lastUnsubscribe")
}

// idle period > 0: a connection is reused while idle, and closed one idle period after its last subscription ended —
// also when an earlier idle timer fired while it was in use again
func c18IdleReuse(run *Run, k int) {
	up := newC18Upstream()
	defer up.close()
	ctx, cancel := context.WithCancel(context.Background())
	defer cancel()
	idle := 15 * time.Millisecond
	client := subscriptionclient.New(ctx, subscriptionclient.Config{WSIdleTimeout: idle})
	opts := c18Options(up.srv.URL, k%5)
	in := map[string]any{"idle": "reuse", "tuple": k % 4, "idleTimeoutMs": 15}
	sub := func(name string) func() {
		c, err := client.Subscribe(context.Background(), &common.Request{Query: "subscription { " + name + " }"}, opts, func(m *common.Message) {})
		if err != nil {
			run.Violate(Violation{Kind: "oracle", Clause: "subscribe_succeeds", Input: in, Detail: err.Error()}, "")
			return nil
		}
		c18Wait(func() bool { return up.registered(name) }, 2*time.Second)
		return c
	}
	cA := sub("s0")
	if cA == nil {
		return
	}
	cA() // the idle timer is armed
	cB := sub("s1")
	if cB == nil {
		return
	}
	if up.accepted() != 1 {
		run.Violate(Violation{Kind: "oracle", Clause: "idle_connection_is_reused", Input: in, Detail: fmt.Sprintf("a subscribe within the idle period opened connection number %d instead of reusing the idle one", up.accepted())}, "")
		return
	}
	time.Sleep(3 * idle) // the first timer fires while s1 is active: nothing may happen
	if client.Stats().WSConns != 1 || up.alive() != 1 {
		run.Violate(Violation{Kind: "oracle", Clause: "idle_timer_spares_a_connection_in_use", Input: in, Detail: fmt.Sprintf("the idle timer of an earlier emptiness closed a connection that carries a subscription (client %d, upstream %d live)", client.Stats().WSConns, up.alive())}, "")
		return
	}
	cB()
	if !c18Wait(func() bool { return client.Stats().WSConns == 0 && up.alive() == 0 }, 20*idle) {
		run.Violate(Violation{Kind: "oracle", Clause: "connection_outlives_last_subscription", Input: in, Impl: map[string]int{"client": client.Stats().WSConns, "upstream": up.alive()},
			Detail: fmt.Sprintf("20 idle periods after its last subscription ended the connection is still there (client %d, upstream %d live)", client.Stats().WSConns, up.alive())}, "")
		return
	}
	run.Feat("idle:reuse")
}

func runC18(run *Run, replay string) Spec {
	spec := Spec{
		Level:       "model_checking",
		Rule:        "scenarios of 8–32 operations (subscribe with one of five option tuples that differ in one key component (path, header value, second value of a header, init payload), upstream data / error / complete per subscription, unsubscribe, connection drop) over 2–6 subscribers against a scripted graphql-transport-ws upstream: per subscriber the handler calls equal the Lean model's delivered events in order; the upstream accepted exactly the model's number of connections; the connections alive at the end are those that still carry a subscription; after everybody unsubscribed none is left. Plus two race scenarios (cancel while a shared dial is being initialised; last unsubscribe against a new subscribe) and an idle-period scenario (reuse while idle; an earlier idle timer firing while in use; closed after the last subscription). non-trivial = scenarios with at least two subscribers on one connection; distinct = distinct scenarios",
		TrustedBase: []string{"Lean model GqlVerif.Proto.WsClient (one action per critical section; theorems in Props.C18)", "the scripted upstream (httptest + coder/websocket) and the recording handlers", "loopback TCP, coder/websocket, the Go scheduler"},
		Assumptions: []string{"scenario operations are issued one after the other (each waits for its effect); the interleavings inside getOrDial and removeSub are only exercised by the two race scenarios", "SSE transport, the legacy graphql-ws subprotocol and ping timeouts are not exercised; an idle period > 0 only by one reuse scenario", "connection keys (xxhash of endpoint, subprotocol, headers, init payload) are collision free"},
	}
	if replay != "" {
		if b, err := os.ReadFile(replay); err == nil {
			var f struct {
				Violation struct {
					Input struct {
						Scenario *c18Scenario `json:"scenario"`
						Race     string       `json:"race"`
					} `json:"input"`
				} `json:"violation"`
			}
			if json.Unmarshal(b, &f) == nil {
				switch {
				case f.Violation.Input.Scenario != nil:
					c18RunScenario(run, f.Violation.Input.Scenario)
				case f.Violation.Input.Race == "cancelDuringDial":
					for k := 0; k < 4; k++ {
						c18RaceCancelDuringDial(run, k)
					}
				case strings.Contains(string(b), `"idle": "reuse"`) || strings.Contains(string(b), `"idle":"reuse"`):
					for k := 0; k < 4; k++ {
						c18IdleReuse(run, k)
					}
				case f.Violation.Input.Race == "lastUnsubscribe":
					for k := 0; k < 8; k++ {
						c18RaceLastUnsubscribe(run, k)
					}
				}
				run.Count("replay")
			}
		}
		return spec
	}
	n := 200
	races := 6
	if run.Tier == "thorough" {
		n, races = 6000, 200
	}
	var wg sync.WaitGroup
	ch := make(chan int, 64)
	for w := 0; w < 6; w++ {
		wg.Add(1)
		go func(w int) {
			defer wg.Done()
			for k := range ch {
				if run.NViolations() >= 6 {
					continue
				}
				r := subRng(run.Seed, k)
				sc := c18GenScenario(r)
				run.SetCurrent(w, sc)
				c18RunScenario(run, sc)
				run.Count(jsonStr(sc))
			}
		}(w)
	}
	for k := 0; k < n; k++ {
		ch <- k
	}
	close(ch)
	wg.Wait()
	for k := 0; k < races; k++ {
		c18RaceCancelDuringDial(run, k)
		c18RaceLastUnsubscribe(run, k)
		c18IdleReuse(run, k)
		run.Count(fmt.Sprintf("race%d", k))
	}
	return spec
}
