package main

// C10 — @defer delivers the same data incrementally with a well-formed stream.
//
// Generated operations over layout L1 carry @defer on inline fragments and fragment spreads (nested, sibling, in lists,
// under abstract types, at the root, labelled, with `if`).  Each is executed through the execution engine with a writer
// that records one frame per Flush, under several completion orders of the subgraph requests (delays derived from an
// order seed).  The Lean acceptor `Defer.accept` decides well-formedness of the stream and `Defer.reconstruct` merges the
// incremental payloads; the result must equal the data of the same operation with every @defer disabled — by removing
// the directives, and by `if: false` — on the same engine.

import (
	"context"
	"encoding/json"
	"fmt"
	"hash/fnv"
	"math/rand"
	"os"
	"regexp"
	"strings"
	"sync"
	"sync/atomic"
	"time"

	"github.com/wundergraph/graphql-go-tools/execution/engine"
	"github.com/wundergraph/graphql-go-tools/execution/graphql"
	"github.com/wundergraph/graphql-go-tools/v2/pkg/ast"
	"github.com/wundergraph/graphql-go-tools/v2/pkg/astparser"
)

func init() { props["C10"] = runC10 }

type c10Case struct {
	Layout     string          `json:"layout"`
	Universe   *fedUniverse    `json:"universe"`
	Operation  string          `json:"operation"`
	Variables  json.RawMessage `json:"variables"`
	OrderSeeds []int64         `json:"orderSeeds"`
	HardFail   string          `json:"hardFailSubgraph,omitempty"` // every request to this subgraph fails hard (c10h.go)
}

// the recording writer: one frame per Flush
type c10Writer struct {
	mu         sync.Mutex
	buf        []byte
	frames     []string
	inWrite    int32
	overlap    bool
	afterDone  bool
	completes  int
	done       chan struct{}
	flushDelay time.Duration
}

func newC10Writer() *c10Writer { return &c10Writer{done: make(chan struct{})} }

func (w *c10Writer) Write(p []byte) (int, error) {
	if atomic.AddInt32(&w.inWrite, 1) > 1 {
		w.overlap = true
	}
	// widen the window in which a second writer would be observed
	if w.flushDelay > 0 {
		time.Sleep(w.flushDelay)
	}
	w.mu.Lock()
	if w.completes > 0 {
		w.afterDone = true
	}
	w.buf = append(w.buf, p...)
	w.mu.Unlock()
	atomic.AddInt32(&w.inWrite, -1)
	return len(p), nil
}

func (w *c10Writer) Flush() error {
	if atomic.AddInt32(&w.inWrite, 1) > 1 {
		w.overlap = true
	}
	if w.flushDelay > 0 {
		time.Sleep(w.flushDelay)
	}
	w.mu.Lock()
	if w.completes > 0 {
		w.afterDone = true
	}
	w.frames = append(w.frames, string(w.buf))
	w.buf = nil
	w.mu.Unlock()
	atomic.AddInt32(&w.inWrite, -1)
	return nil
}

func (w *c10Writer) Complete() {
	w.mu.Lock()
	w.completes++
	first := w.completes == 1
	w.mu.Unlock()
	if first {
		close(w.done)
	}
}
func (w *c10Writer) Heartbeat() error { return nil }
func (w *c10Writer) Error(data []byte) {
	w.mu.Lock()
	w.frames = append(w.frames, "<error>"+string(data))
	w.mu.Unlock()
}

type c10Stream struct {
	Frames    []string
	Rest      string
	Overlap   bool
	AfterDone bool
	Completes int
	Err       error
	TimedOut  bool
	Log       []fedExchange
	Probs     []string
}

func (e *fedEngine) runStream(sess *fedSession, query, opName string, vars []byte, flushDelay time.Duration) *c10Stream {
	return e.runStreamOpts(sess, query, opName, vars, flushDelay)
}

func (e *fedEngine) runStreamOpts(sess *fedSession, query, opName string, vars []byte, flushDelay time.Duration, options ...engine.ExecutionOptions) *c10Stream {
	e.mu.Lock()
	e.sess = sess
	e.mu.Unlock()
	req := graphql.Request{Query: query, OperationName: opName}
	if len(vars) > 0 {
		req.Variables = vars
	}
	w := newC10Writer()
	w.flushDelay = flushDelay
	errCh := make(chan error, 1)
	ctx, cancel := context.WithCancel(context.Background())
	defer cancel()
	go func() { errCh <- e.eng.Execute(ctx, &req, w, options...) }()
	out := &c10Stream{}
	select {
	case out.Err = <-errCh:
	case <-time.After(20 * time.Second):
		out.TimedOut = true
		cancel()
		select {
		case <-errCh:
		case <-time.After(2 * time.Second):
		}
	}
	w.mu.Lock()
	out.Frames = append([]string{}, w.frames...)
	out.Rest = string(w.buf)
	out.Overlap, out.AfterDone, out.Completes = w.overlap, w.afterDone, w.completes
	if len(out.Frames) == 0 && out.Rest != "" {
		// a plain (non-incremental) response is written without Flush
		out.Frames, out.Rest = []string{out.Rest}, ""
	}
	w.mu.Unlock()
	sess.mu.Lock()
	out.Log = append([]fedExchange{}, sess.log...)
	out.Probs = append([]string{}, sess.problems...)
	sess.mu.Unlock()
	return out
}

var c10DeferRe = regexp.MustCompile(`@defer(\([^)]*\))?`)
var c10DeferIfVarRe = regexp.MustCompile(`@defer\(if: \$(d\d+)\)`)

// every @defer removed; those with `if: $d` keep the variable in use, set to false
func c10Stripped(op string, vars []byte) (string, []byte) {
	var vm map[string]any
	_ = json.Unmarshal(vars, &vm)
	if vm == nil {
		vm = map[string]any{}
	}
	out := c10DeferRe.ReplaceAllStringFunc(op, func(m string) string {
		if sm := c10DeferIfVarRe.FindStringSubmatch(m); sm != nil {
			vm[sm[1]] = false
			return m
		}
		return ""
	})
	b, _ := json.Marshal(vm)
	return out, b
}

// every @defer disabled with `if: false` (labels kept)
func c10IfFalse(op string, vars []byte) (string, []byte) {
	var vm map[string]any
	_ = json.Unmarshal(vars, &vm)
	if vm == nil {
		vm = map[string]any{}
	}
	out := c10DeferRe.ReplaceAllStringFunc(op, func(m string) string {
		if sm := c10DeferIfVarRe.FindStringSubmatch(m); sm != nil {
			vm[sm[1]] = false
			return m
		}
		if i := strings.Index(m, `label: "`); i >= 0 {
			return `@defer(if: false, ` + m[i:]
		}
		return "@defer(if: false)"
	})
	b, _ := json.Marshal(vm)
	return out, b
}

func c10Gate(seed int64, maxMs int) func(sub, query string, vars []byte) {
	return func(sub, query string, vars []byte) {
		h := fnv.New64a()
		fmt.Fprintf(h, "%d|%s|%s", seed, sub, query)
		d := time.Duration(h.Sum64()%uint64(maxMs*1000)) * time.Microsecond
		time.Sleep(d)
	}
}

func c10Check(run *Run, c *c10Case, worker int) {
	layouts, err := fedGetLayouts()
	if err != nil {
		run.Violate(Violation{Kind: "oracle", Clause: "layout_builds", Detail: err.Error()}, "")
		return
	}
	l := layouts[c.Layout]
	in := map[string]any{"case": c}
	e, mu, err := fedCachedEngine(l, fmt.Sprintf("c10/%d", worker), fedEngineOpts{})
	if err != nil {
		run.Violate(Violation{Kind: "oracle", Clause: "engine_builds", Input: in, Detail: err.Error()}, "")
		return
	}
	defer mu.Unlock() // (returned locked)
	mkSession := func() *fedSession { return &fedSession{layout: l, universe: c.Universe, pool: run.Pool} }

	// baselines: the same operation with every @defer removed / disabled
	sop, svars := c10Stripped(c.Operation, c.Variables)
	base := e.run(mkSession(), sop, "Q", svars)
	if base.Err != nil {
		// the operation itself is not executable: nothing to compare (counted)
		run.Feat("baseline:error")
		return
	}
	fop, fvars := c10IfFalse(c.Operation, c.Variables)
	off := e.runStream(mkSession(), fop, "Q", fvars, 0)
	if off.Err != nil || off.TimedOut {
		run.Violate(Violation{Kind: "oracle", Clause: "if_false_executes", Input: in, Detail: fmt.Sprintf("with @defer(if:false) the operation fails: %v (timeout=%v); without @defer it answers %s", off.Err, off.TimedOut, truncate(base.Raw, 400))}, "")
	} else {
		if len(off.Frames) != 1 {
			run.Violate(Violation{Kind: "oracle", Clause: "if_false_single_payload", Input: in, Impl: off.Frames, Detail: fmt.Sprintf("with every @defer(if:false) the engine sent %d frames", len(off.Frames))}, "")
		} else {
			var parsed struct {
				Data    any   `json:"data"`
				Errors  []any `json:"errors"`
				Pending []any `json:"pending"`
			}
			dec := json.NewDecoder(strings.NewReader(off.Frames[0]))
			dec.UseNumber()
			_ = dec.Decode(&parsed)
			if !fedJSONEqual(parsed.Data, base.Data) || len(parsed.Pending) > 0 {
				run.Violate(Violation{Kind: "oracle", Clause: "if_false_same_data", Input: in, Impl: off.Frames[0], Model: base.Raw,
					Detail: fmt.Sprintf("@defer(if:false): %s; without @defer: %s", truncate(off.Frames[0], 600), truncate(base.Raw, 600))}, "")
			}
		}
	}
	if c.HardFail != "" {
		c10CheckHardFailure(run, c, e, mkSession)
	}
	orders := map[string]bool{}
	for k, seed := range c.OrderSeeds {
		sess := mkSession()
		sess.gate = c10Gate(seed, 3)
		flushDelay := time.Duration(0)
		if k%2 == 1 {
			flushDelay = 200 * time.Microsecond
		}
		st := e.runStream(sess, c.Operation, "Q", c.Variables, flushDelay)
		in2 := map[string]any{"case": c, "orderSeed": seed}
		if os.Getenv("VERIF_DEBUG") != "" && k == 0 {
			for _, ex := range st.Log {
				fmt.Fprintf(os.Stderr, "  -> %s %s %s\n     <- %s\n", ex.Subgraph, ex.Query, ex.Variables, truncate(ex.Response, 400))
			}
			for _, f := range st.Frames {
				fmt.Fprintf(os.Stderr, "  FRAME %s\n", f)
			}
		}
		if st.TimedOut {
			run.Violate(Violation{Kind: "oracle", Clause: "terminates", Input: in2, Impl: st.Frames, Detail: "the deferred stream did not end within 20 s"}, "")
			return
		}
		if st.Err != nil {
			run.Violate(Violation{Kind: "oracle", Clause: "executes", Input: in2, Impl: st.Frames, Detail: fmt.Sprintf("with @defer the operation fails: %v; without @defer it answers %s", st.Err, truncate(base.Raw, 400))}, "")
			return
		}
		if st.Overlap {
			run.Violate(Violation{Kind: "oracle", Clause: "frames_not_interleaved", Input: in2, Impl: st.Frames, Detail: "two goroutines were inside the writer at the same time"}, "")
		}
		if st.AfterDone {
			run.Violate(Violation{Kind: "oracle", Clause: "nothing_after_complete", Input: in2, Impl: st.Frames, Detail: "the writer was written to or flushed after Complete()"}, "")
		}
		if st.Rest != "" {
			run.Violate(Violation{Kind: "oracle", Clause: "everything_flushed", Input: in2, Impl: st.Rest, Detail: "bytes were written but never flushed: " + truncate(st.Rest, 300)}, "")
		}
		var frames []json.RawMessage
		bad := false
		for i, f := range st.Frames {
			var obj map[string]json.RawMessage
			if err := json.Unmarshal([]byte(f), &obj); err != nil {
				run.Violate(Violation{Kind: "oracle", Clause: "frames_not_interleaved", Input: in2, Impl: st.Frames, Detail: fmt.Sprintf("frame %d is not one JSON object: %s", i, truncate(f, 400))}, "")
				bad = true
				break
			}
			frames = append(frames, json.RawMessage(f))
		}
		if bad {
			continue
		}
		if len(frames) == 0 {
			run.Violate(Violation{Kind: "oracle", Clause: "stream_well_formed", Input: in2, Detail: "no frame was sent"}, "")
			continue
		}
		multi := len(frames) > 1 || strings.Contains(st.Frames[0], `"hasNext"`)
		if multi && st.Completes != 1 {
			run.Violate(Violation{Kind: "oracle", Clause: "terminates", Input: in2, Impl: st.Frames, Detail: fmt.Sprintf("Complete() was called %d times on an incremental stream", st.Completes)}, "")
		}
		var got any
		if multi {
			raw, err := run.Pool.Ask("c10.check", map[string]any{"frames": frames})
			if err != nil {
				run.Violate(Violation{Kind: "correspondence", Clause: "driver", Input: in2, Detail: err.Error()}, "")
				continue
			}
			var res struct {
				Accept   bool            `json:"accept"`
				FirstBad *int            `json:"firstBad"`
				AllDone  bool            `json:"allDone"`
				Data     json.RawMessage `json:"data"`
			}
			_ = json.Unmarshal(raw, &res)
			if !res.Accept {
				why := "hasNext discipline"
				if res.FirstBad != nil {
					why = fmt.Sprintf("frame %d delivers or completes an id that is unannounced or already completed, or announces/completes an id twice", *res.FirstBad)
				} else if !res.AllDone {
					why = "an announced id is never completed"
				}
				run.Violate(Violation{Kind: "oracle", Clause: "stream_well_formed", Input: in2, Impl: st.Frames,
					Detail: why + ": " + truncate(strings.Join(st.Frames, "\n"), 1500)}, "")
			}
			dec := json.NewDecoder(strings.NewReader(string(res.Data)))
			dec.UseNumber()
			_ = dec.Decode(&got)
			run.Feat(fmt.Sprintf("frames:%d", min(len(frames), 6)))
		} else {
			var parsed struct {
				Data any `json:"data"`
			}
			dec := json.NewDecoder(strings.NewReader(st.Frames[0]))
			dec.UseNumber()
			_ = dec.Decode(&parsed)
			got = parsed.Data
			run.Feat("frames:single")
		}
		streamErrors := strings.Contains(strings.Join(st.Frames, ""), `"errors"`)
		if streamErrors && len(base.Errors) == 0 {
			// the subgraphs answer the same in both runs: an error that exists only with @defer was made by the engine
			run.Violate(Violation{Kind: "oracle", Clause: "no_errors_of_its_own", Input: in2, Impl: st.Frames, Model: base.Raw,
				Detail: fmt.Sprintf("the stream reports errors, the same operation without @defer reports none: %s", truncate(strings.Join(st.Frames, "\n"), 1500))}, "")
		}
		hasErrors := len(base.Errors) > 0 || streamErrors
		if !hasErrors {
			if !fedJSONEqual(got, base.Data) {
				gj, _ := json.Marshal(got)
				known := ""
				// every difference must be explained by an open finding for the case to be attributed to one
				sib, multi := c10ContestedContainers(c.Operation, c.Variables)
				missing, omitted, nulled, other := c10ClassifyDiff(got, base.Data, sib, multi)
				if other == 0 && nulled > 0 {
					known = "C10-entity-key-taken-from-deferred-selection"
				} else if other == 0 && missing > 0 {
					// the value a @requires field computes from an absent input (the semantic subgraphs print MISSING)
					known = "C10-deferred-requires-field-fetched-without-its-inputs"
				} else if other == 0 && omitted > 0 {
					known = "C10-sibling-defers-share-a-container"
				}
				run.Violate(Violation{Kind: "oracle", Clause: "reconstructs", Input: in2, Impl: st.Frames, Model: base.Raw,
					Detail: fmt.Sprintf("initial + incremental payloads give %s; the operation without @defer answers %s; frames: %s", truncate(string(gj), 700), truncate(base.Raw, 700), truncate(strings.Join(st.Frames, "\n"), 1200))}, known)
			}
		} else {
			run.Feat("with_errors")
		}
		// the order in which ids complete, for the distribution
		var ord []string
		for _, f := range st.Frames {
			var fr struct {
				Completed []struct {
					ID string `json:"id"`
				} `json:"completed"`
			}
			_ = json.Unmarshal([]byte(f), &fr)
			for _, c := range fr.Completed {
				ord = append(ord, c.ID)
			}
		}
		orders[strings.Join(ord, ",")] = true
		run.mu.Lock()
		run.TracesVsImpl++
		run.mu.Unlock()
	}
	if len(orders) > 1 {
		run.Feat("completion_orders:>1")
	}
}

func runC10(run *Run, replay string) Spec {
	spec := Spec{
		Level:       "translation_validation",
		Rule:        "generated operations over layout L1 with @defer on inline fragments and spreads (nested, sibling, in lists, under interface and union members, at the root, labelled, if: literal/variable) × 3 completion orders of the subgraph requests (seeded delays): the recorded frames are accepted by the Lean acceptor Defer.accept, Defer.reconstruct of the frames equals the data of the same operation with every @defer removed (same engine), @defer(if:false) yields one payload with that data, writer calls never overlap, nothing after Complete, the stream ends; in addition Resolvable.isDeferAncestor is run (build-tag hook) on generated defer trees with random valid delivery orders: it never admits a group that has not been delivered before the group being rendered, and it answers like the Lean model Proto.DeferTree.anc; for a third of the operations every request to one subgraph additionally fails hard (a pre-fetch rate limiter returns an error) and the stream discipline alone is judged (ends, writer never entered twice at once, nothing after Complete, every frame one JSON object). non-trivial = operations whose stream has ≥ 2 frames; distinct = distinct (operation, universe)",
		TrustedBase: []string{"the engine without @defer as the data reference (validated against the Lean reference executor by C01)", "the harness' semantic subgraphs, recording writer and operation generator", "JSON decoding of frames in the Lean driver"},
		Assumptions: []string{"completion orders are induced by seeded per-request delays, not enumerated", "when the undeferred response or any frame carries errors only the stream discipline is checked, not data equality (non-null propagation legitimately differs per payload)"},
	}
	layouts, err := fedGetLayouts()
	if err != nil {
		run.Violate(Violation{Kind: "oracle", Clause: "layout_builds", Detail: err.Error()}, "")
		return spec
	}
	if replay != "" {
		if b, err := os.ReadFile(replay); err == nil {
			var ft struct {
				Violation struct {
					Input c10TreeCase `json:"input"`
				} `json:"violation"`
			}
			if json.Unmarshal(b, &ft) == nil && ft.Violation.Input.Stream == "defer_tree" {
				c10CheckTree(run, ft.Violation.Input)
				return spec
			}
			var f struct {
				Violation struct {
					Input struct {
						Case *c10Case `json:"case"`
					} `json:"input"`
				} `json:"violation"`
			}
			if json.Unmarshal(b, &f) == nil && f.Violation.Input.Case != nil {
				c := f.Violation.Input.Case
				for k := int64(0); k < 12; k++ {
					c.OrderSeeds = append(c.OrderSeeds, k)
				}
				c10Check(run, c, 0)
				run.Count("replay")
			}
		}
		return spec
	}
	// the defer tree of the resolver: isDeferAncestor on generated trees and delivery orders (c10t.go)
	nTrees := 400
	if run.Tier == "thorough" {
		nTrees = 20000
	}
	parallelFor(nTrees, 8, func(k int) {
		if run.NViolations() < 5 {
			c10CheckTree(run, c10GenTree(subRng(run.Seed+31, k)))
		}
	})
	n := 300
	if run.Tier == "thorough" {
		n = 12000
	}
	workers := 8
	var wg sync.WaitGroup
	ch := make(chan int, 64)
	for w := 0; w < workers; w++ {
		wg.Add(1)
		go func(w int) {
			defer wg.Done()
			for k := range ch {
				if run.NViolations() >= 6 {
					continue
				}
				r := subRng(run.Seed, k)
				u := fedL1Universe(r)
				var op string
				var vars []byte
				var feats map[string]bool
				for try := 0; try < 20; try++ {
					op, vars, feats = fedGenOperationDefer(r, layouts["L1"].super, u, 2+r.Intn(3))
					if strings.Contains(op, "@defer") {
						break
					}
				}
				if !strings.Contains(op, "@defer") {
					continue
				}
				c := &c10Case{Layout: "L1", Universe: u, Operation: op, Variables: vars, OrderSeeds: []int64{r.Int63(), r.Int63(), r.Int63()}}
				if subs := layouts["L1"].Subs; r.Intn(3) == 0 {
					c.HardFail = subs[r.Intn(len(subs))].Name
				}
				run.SetCurrent(w, c)
				c10Check(run, c, w)
				for f := range feats {
					if strings.HasPrefix(f, "defer:") {
						run.Feat(f)
					}
				}
				run.Feat(fmt.Sprintf("defers:%d", min(strings.Count(op, "@defer"), 5)))
				run.Count(op + jsonStr(u))
			}
		}(w)
	}
	for k := 0; k < n; k++ {
		ch <- k
	}
	close(ch)
	wg.Wait()
	return spec
}

var _ = rand.Int

// ---- guard for the known finding "sibling defers share a container" ---------------------------------------------------

// c10ContestedContainers returns the response paths (keys only, "/"-joined) of composite fields that are selected in two
// distinct enabled @defer scopes (siblings), and those selected in more than one delivery scope at all (multi).
func c10ContestedContainers(opText string, vars []byte) (siblings map[string]bool, multi map[string]bool) {
	doc, rep := astparser.ParseGraphqlDocumentString(opText)
	if rep.HasErrors() {
		return nil, nil
	}
	var vm map[string]any
	_ = json.Unmarshal(vars, &vm)
	frags := map[string]int{}
	for _, n := range doc.RootNodes {
		if n.Kind == ast.NodeKindFragmentDefinition {
			frags[doc.FragmentDefinitionNameString(n.Ref)] = doc.FragmentDefinitions[n.Ref].SelectionSet
		}
	}
	parent := map[int]int{} // scope -> enclosing scope
	nscope := 0
	enabledDefer := func(dirRefs []int) bool {
		for _, d := range dirRefs {
			if doc.DirectiveNameString(d) != "defer" {
				continue
			}
			if v, ok := doc.DirectiveArgumentValueByName(d, []byte("if")); ok {
				switch v.Kind {
				case ast.ValueKindBoolean:
					return bool(doc.BooleanValue(v.Ref))
				case ast.ValueKindVariable:
					b, _ := vm[doc.VariableValueNameString(v.Ref)].(bool)
					return b
				}
			}
			return true
		}
		return false
	}
	scopes := map[string]map[int]bool{}
	var walk func(set int, path string, scope int, depth int)
	enter := func(dirRefs []int, scope int) int {
		if enabledDefer(dirRefs) {
			nscope++
			parent[nscope] = scope
			return nscope
		}
		return scope
	}
	walk = func(set int, path string, scope int, depth int) {
		if set < 0 || depth > 40 {
			return
		}
		for _, sr := range doc.SelectionSets[set].SelectionRefs {
			sel := doc.Selections[sr]
			switch sel.Kind {
			case ast.SelectionKindField:
				f := sel.Ref
				if !doc.Fields[f].HasSelections {
					continue
				}
				key := doc.FieldNameString(f)
				if doc.FieldAliasIsDefined(f) {
					key = doc.FieldAliasString(f)
				}
				p := path + "/" + key
				if scopes[p] == nil {
					scopes[p] = map[int]bool{}
				}
				scopes[p][scope] = true
				walk(doc.Fields[f].SelectionSet, p, scope, depth+1)
			case ast.SelectionKindInlineFragment:
				fr := sel.Ref
				walk(doc.InlineFragments[fr].SelectionSet, path, enter(doc.InlineFragments[fr].Directives.Refs, scope), depth+1)
			case ast.SelectionKindFragmentSpread:
				if set, ok := frags[doc.FragmentSpreadNameString(sel.Ref)]; ok {
					walk(set, path, enter(doc.FragmentSpreads[sel.Ref].Directives.Refs, scope), depth+1)
				}
			}
		}
	}
	for _, n := range doc.RootNodes {
		if n.Kind == ast.NodeKindOperationDefinition && doc.OperationDefinitions[n.Ref].HasSelections {
			walk(doc.OperationDefinitions[n.Ref].SelectionSet, "", 0, 0)
		}
	}
	out := map[string]bool{}
	multi = map[string]bool{}
	for p, ss := range scopes {
		if len(ss) > 1 {
			multi[p] = true
		}
		var ids []int
		for s := range ss {
			if s != 0 {
				ids = append(ids, s)
			}
		}
		// (the engine re-parents a nested defer when the defer between it and an outer one has no fields of its own, so
		// textual nesting does not tell which of two defers encloses the other at run time: any two count)
		if len(ids) > 1 {
			out[p] = true
		}
	}
	return out, multi
}

// c10ClassifyDiff counts the differences between the reconstructed and the undeferred data: string leaves where got
// carries the MISSING marker of the semantic subgraphs (a @requires input was absent), object keys omitted below one of the
// contested container paths (list indices ignored), leaves that are null instead of a value below a container selected in
// several delivery scopes, and everything else
func c10ClassifyDiff(got, want any, containers, multi map[string]bool) (missing, omitted, nulled, other int) {
	belowMulti := func(path string) bool {
		for c := range multi {
			if strings.HasPrefix(path, c+"/") {
				return true
			}
		}
		return false
	}
	below := func(path string) bool {
		for c := range containers {
			if path == c || strings.HasPrefix(path, c+"/") {
				return true
			}
		}
		return false
	}
	var walk func(g, w any, path string)
	walk = func(g, w any, path string) {
		switch wv := w.(type) {
		case map[string]any:
			gv, ok := g.(map[string]any)
			if !ok {
				other++
				return
			}
			for k := range gv {
				if _, ok := wv[k]; !ok {
					other++
				}
			}
			for k, y := range wv {
				x, ok := gv[k]
				if !ok {
					if below(path) {
						omitted++
					} else {
						other++
					}
					continue
				}
				walk(x, y, path+"/"+k)
			}
		case []any:
			gv, ok := g.([]any)
			if !ok || len(gv) != len(wv) {
				other++
				return
			}
			for i := range wv {
				walk(gv[i], wv[i], path)
			}
		default:
			if !fedJSONEqual(g, w) {
				if s, ok := g.(string); ok && strings.Contains(s, "MISSING") {
					if _, ok := w.(string); ok {
						missing++
						return
					}
				}
				if g == nil && w != nil && belowMulti(path) {
					nulled++
					return
				}
				other++
			}
		}
	}
	walk(got, want, "")
	return
}
