package main

// C07, tainted objects: taintedObjects.filterOutTainted (through the build-tag hook resolve.VerifFilterOutTainted) on
// generated JSON items in which some objects are marked as tainted (entities whose nullable @requires input failed).
//   oracle (model independent): an item is dropped exactly when it is or contains a marked object — a representation is
//     never built from failed data, and nothing else is lost; the remaining items keep their order;
//   correspondence: the verdict per item is the Lean model's (Misc.Taint.isTainted, Props.C07.dropped_iff_contains_marked).

import (
	"encoding/json"
	"fmt"
	"math/rand"
	"strings"

	"github.com/wundergraph/astjson"

	"github.com/wundergraph/graphql-go-tools/v2/pkg/engine/resolve"
)

type c07Node struct {
	Mark bool       `json:"m"`
	Kind string     `json:"kind"` // obj | arr | leaf
	Kids []*c07Node `json:"k,omitempty"`
}

type c07TaintCase struct {
	Stream string     `json:"stream"`
	Items  []*c07Node `json:"items"`
}

func c07GenNode(r *rand.Rand, depth int, pMark float64) *c07Node {
	if depth <= 0 || r.Intn(3) == 0 {
		return &c07Node{Kind: "leaf"}
	}
	n := &c07Node{Kind: pick(r, []string{"obj", "obj", "arr"})}
	if n.Kind == "obj" && r.Float64() < pMark {
		n.Mark = true
	}
	for i, k := 0, r.Intn(4); i < k; i++ {
		n.Kids = append(n.Kids, c07GenNode(r, depth-1, pMark))
	}
	return n
}

func (n *c07Node) json(sb *strings.Builder, leaf *int) {
	switch n.Kind {
	case "leaf":
		*leaf++
		sb.WriteString(pick(rand.New(rand.NewSource(int64(*leaf))), []string{"1", `"s"`, "null", "true"}))
	case "arr":
		sb.WriteString("[")
		for i, k := range n.Kids {
			if i > 0 {
				sb.WriteString(",")
			}
			k.json(sb, leaf)
		}
		sb.WriteString("]")
	default:
		sb.WriteString("{")
		for i, k := range n.Kids {
			if i > 0 {
				sb.WriteString(",")
			}
			fmt.Fprintf(sb, `"k%d":`, i)
			k.json(sb, leaf)
		}
		sb.WriteString("}")
	}
}

func (n *c07Node) hasMark() bool {
	if n.Mark {
		return true
	}
	for _, k := range n.Kids {
		if k.hasMark() {
			return true
		}
	}
	return false
}

// the parsed values that correspond to the marked nodes
func c07Marked(n *c07Node, v *astjson.Value, out *[]*astjson.Value) {
	if n.Mark {
		*out = append(*out, v)
	}
	switch n.Kind {
	case "arr":
		elems := v.GetArray()
		for i, k := range n.Kids {
			c07Marked(k, elems[i], out)
		}
	case "obj":
		for i, k := range n.Kids {
			c07Marked(k, v.Get(fmt.Sprintf("k%d", i)), out)
		}
	}
}

func c07GenTaintCase(r *rand.Rand) c07TaintCase {
	c := c07TaintCase{Stream: "tainted_objects"}
	pMark := []float64{0.05, 0.15, 0.4}[r.Intn(3)]
	for i, n := 0, 1+r.Intn(5); i < n; i++ {
		it := c07GenNode(r, 1+r.Intn(4), pMark)
		if it.Kind == "leaf" {
			it = &c07Node{Kind: "obj", Kids: []*c07Node{it}}
		}
		c.Items = append(c.Items, it)
	}
	return c
}

func c07CheckTaint(run *Run, c c07TaintCase) {
	var items, marked []*astjson.Value
	leaf := 0
	for _, it := range c.Items {
		var sb strings.Builder
		it.json(&sb, &leaf)
		v, err := astjson.Parse(sb.String())
		if err != nil {
			run.Violate(Violation{Kind: "oracle", Clause: "harness_json", Input: c, Detail: err.Error()}, "")
			return
		}
		items = append(items, v)
		c07Marked(it, v, &marked)
	}
	nMarked := 0
	for _, it := range c.Items {
		if it.hasMark() {
			nMarked++
		}
	}
	run.Count(jsonStr(c), "tainted_objects", fmt.Sprintf("items_with_mark=%d", min(nMarked, 3)))
	kept := resolve.VerifFilterOutTainted(items, marked)
	// oracle: exactly the items without a marked object remain, in order
	var want []int
	for i, it := range c.Items {
		if !it.hasMark() {
			want = append(want, i)
		}
	}
	var got []int
	for _, k := range kept {
		for i, v := range items {
			if v == k {
				got = append(got, i)
			}
		}
	}
	if fmt.Sprint(got) != fmt.Sprint(want) {
		run.Violate(Violation{Kind: "oracle", Clause: "item_with_tainted_object_is_not_used", Input: c, Impl: map[string]any{"kept_items": got},
			Detail: fmt.Sprintf("filterOutTainted keeps the items %v; the items without a tainted object are %v (an item that contains a tainted entity would be sent as a representation built from failed data, or an untainted item is lost)", got, want)}, "")
		return
	}
	// the model's verdict per item
	for i, it := range c.Items {
		m, err := run.Pool.Ask("c07.taint", map[string]any{"tree": it})
		if err != nil {
			run.Violate(Violation{Kind: "correspondence", Clause: "driver", Input: c, Detail: err.Error()}, "")
			return
		}
		var mr struct {
			Tainted bool `json:"tainted"`
		}
		json.Unmarshal(m, &mr)
		run.Feat("tainted_items_vs_model")
		if mr.Tainted == containsInt(got, i) {
			run.Violate(Violation{Kind: "correspondence", Clause: "c07.taint: filterOutTainted differs from the model", Input: c,
				Impl: map[string]any{"item": i, "kept": containsInt(got, i)}, Model: decodeRaw(m)}, "")
			return
		}
	}
}
