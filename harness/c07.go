package main

// C07 — subgraph failures are isolated to the data that depended on them.
//
// For each generated case (layout, universe, operation, variables) the engine first runs fault free; then requests are
// failed (transport error, 500, empty body, non-JSON body, errors without data, wrong entity count):
//  (S) every request to one subgraph fails: the response data must equal the reference execution in which exactly the
//      fields that only this subgraph can supply are unavailable (Lean executor with those coordinates failing: null
//      with propagation per the supergraph's nullability, computed fields whose inputs are unavailable fail too);
//  (K) the requests with one (subgraph, operation) key fail: the response must be the fault-free data with some
//      subtrees replaced by null (nulling order), at least one error is reported;
// and in both modes every request sent has a fault-free counterpart with the same operation and a subset of its
// representations — a failure never fabricates, corrupts or re-targets downstream requests.

import (
	"encoding/json"
	"fmt"
	"math/rand"
	"os"
	"sort"
	"strings"
	"sync"
	"time"
)

func init() { props["C07"] = runC07 }

var c07FaultKinds = []string{"transport", "status500", "empty", "nonjson", "errorsOnly", "wrongCount", "errorsWithLocation"}

// fields only this subgraph can supply: declared non-external there and nowhere else
func c07ExclusiveFields(l *fedLayout, sub string) [][2]string {
	var out [][2]string
	for _, sg := range l.Subs {
		if sg.Name != sub {
			continue
		}
		for _, t := range sg.schema.Types {
			if t.Kind != "OBJECT" {
				continue
			}
			for _, f := range t.Fields {
				if f.External {
					continue
				}
				shared := false
				for _, other := range l.Subs {
					if other.Name == sub {
						continue
					}
					if ot := other.schema.typ(t.Name); ot != nil {
						for _, of := range ot.Fields {
							if of.Name == f.Name && !of.External {
								shared = true // resolvable elsewhere: not decided by this subgraph alone
							}
						}
					}
					// … or handed out through @provides on some path
					for _, ot := range other.schema.Types {
						for _, of := range ot.Fields {
							if of.Provides != "" && fedNamed(of.Type) == t.Name && containsStr(strings.Fields(of.Provides), f.Name) {
								shared = true
							}
						}
					}
				}
				if !shared {
					out = append(out, [2]string{t.Name, f.Name})
				}
			}
		}
	}
	return out
}

func c07AllFields(l *fedLayout, sub string) [][2]string {
	var out [][2]string
	for _, sg := range l.Subs {
		if sg.Name != sub {
			continue
		}
		for _, t := range sg.schema.Types {
			if t.Kind != "OBJECT" {
				continue
			}
			for _, f := range t.Fields {
				if !f.External && !containsStr(t.Keys, f.Name) {
					out = append(out, [2]string{t.Name, f.Name})
				}
			}
		}
	}
	return out
}

func c07Reps(vars json.RawMessage) map[string]bool {
	var v struct {
		Representations []json.RawMessage `json:"representations"`
	}
	_ = json.Unmarshal(vars, &v)
	out := map[string]bool{}
	for _, r := range v.Representations {
		var x any
		_ = json.Unmarshal(r, &x)
		b, _ := json.Marshal(x)
		out[string(b)] = true
	}
	return out
}

// every request of the faulty run has a fault-free counterpart with the same operation and ⊇ representations
func c07RequestsSubset(faulty, clean []fedExchange) string {
	for _, r := range faulty {
		ok := false
		reps := c07Reps(r.Variables)
		for _, r0 := range clean {
			if r0.Subgraph != r.Subgraph || r0.Query != r.Query {
				continue
			}
			reps0 := c07Reps(r0.Variables)
			sub := true
			for k := range reps {
				if !reps0[k] {
					sub = false
				}
			}
			if sub && (len(reps) > 0 || len(reps0) == 0) {
				// non-entity requests must have the same variables
				if len(reps) == 0 && len(reps0) == 0 && string(r.Variables) != string(r0.Variables) {
					continue
				}
				ok = true
				break
			}
		}
		if !ok {
			return fmt.Sprintf("request to %s has no fault-free counterpart: %s variables %s", r.Subgraph, r.Query, truncate(string(r.Variables), 400))
		}
	}
	return ""
}

// a ⊑ b: a is b with some subtrees replaced by null
func c07Nulled(a, b any) bool {
	if a == nil {
		return true
	}
	switch x := b.(type) {
	case map[string]any:
		y, ok := a.(map[string]any)
		if !ok || len(x) != len(y) {
			return false
		}
		for k, v := range x {
			w, ok := y[k]
			if !ok || !c07Nulled(w, v) {
				return false
			}
		}
		return true
	case []any:
		y, ok := a.([]any)
		if !ok || len(x) != len(y) {
			return false
		}
		for i := range x {
			if !c07Nulled(y[i], x[i]) {
				return false
			}
		}
		return true
	}
	return fedJSONEqual(a, b)
}

func c07Check(run *Run, c *fedCase, r *rand.Rand, worker int) {
	layouts, err := fedGetLayouts()
	if err != nil {
		run.Violate(Violation{Kind: "oracle", Clause: "layout_builds", Detail: err.Error()}, "")
		return
	}
	l := layouts[c.Layout]
	eng, mu, err := fedCachedEngine(l, fmt.Sprintf("%s/c07/%d", l.Name, worker), fedEngineOpts{})
	if err != nil {
		run.Violate(Violation{Kind: "oracle", Clause: "engine_builds", Detail: err.Error()}, "")
		return
	}
	defer mu.Unlock()
	clean := eng.run(&fedSession{layout: l, universe: c.Universe, pool: run.Pool}, c.Operation, "Q", []byte(c.Variables))
	if clean.Err != nil || len(clean.Log) == 0 {
		return
	}
	// choose the mode, the victim and the fault kind
	kind := c07FaultKinds[r.Intn(len(c07FaultKinds))]
	mode := pick(r, []string{"S", "S", "K"})
	victim := clean.Log[r.Intn(len(clean.Log))]
	if kind == "wrongCount" && !strings.Contains(victim.Query, "_entities") {
		kind = "errorsOnly"
	}
	in := map[string]any{"case": c, "mode": mode, "fault": kind, "victim_subgraph": victim.Subgraph, "victim_query": victim.Query}
	hit := 0
	var hitMu sync.Mutex
	sess := &fedSession{layout: l, universe: c.Universe, pool: run.Pool}
	sess.fault = func(sub, query string, vars []byte, seq int) *fedFault {
		if sub != victim.Subgraph || (mode == "K" && query != victim.Query) {
			return nil
		}
		k := kind
		if k == "wrongCount" && (!strings.Contains(query, "_entities") || len(c07Reps(vars)) < 2) {
			// a single-entity fetch reads element 0 and has no count to check
			k = "errorsOnly"
		}
		hitMu.Lock()
		hit++
		hitMu.Unlock()
		return &fedFault{Kind: k}
	}
	done := make(chan *fedResponse, 1)
	go func() { done <- eng.run(sess, c.Operation, "Q", []byte(c.Variables)) }()
	var faulty *fedResponse
	select {
	case faulty = <-done:
	case <-time.After(20 * time.Second):
		run.Violate(Violation{Kind: "oracle", Clause: "terminates", Input: in, Detail: "no response within 20s under a subgraph fault"}, "")
		return
	}
	run.Feat("fault:"+kind, "mode:"+mode)
	if hit == 0 {
		return
	}
	if faulty.Err != nil {
		run.Violate(Violation{Kind: "oracle", Clause: "one_wellformed_response", Input: in, Impl: faulty.Raw, Detail: "Execute returned an error instead of a response: " + faulty.Err.Error()}, "")
		return
	}
	if !json.Valid([]byte(faulty.Raw)) {
		run.Violate(Violation{Kind: "oracle", Clause: "one_wellformed_response", Input: in, Impl: faulty.Raw, Detail: "the response is not valid JSON"}, "")
		return
	}
	if len(faulty.Errors) == 0 {
		run.Violate(Violation{Kind: "oracle", Clause: "failure_is_reported", Input: in, Impl: faulty.Raw, Detail: fmt.Sprintf("%d requests failed (%s) but the response has no error", hit, kind)}, "")
	}
	if e := c07RequestsSubset(faulty.Log, clean.Log); e != "" {
		run.Violate(Violation{Kind: "oracle", Clause: "no_fabricated_requests", Input: in, Impl: faulty.Log, Model: clean.Log, Detail: e}, "")
	}
	if !c07Nulled(faulty.Data, clean.Data) {
		run.Violate(Violation{Kind: "oracle", Clause: "unaffected_data_identical", Input: in, Impl: faulty.Raw, Model: clean.Raw,
			Detail: fmt.Sprintf("the response under the fault is not the fault-free response with subtrees nulled: %s vs %s", truncate(jsonStr(faulty.Data), 600), truncate(jsonStr(clean.Data), 600))}, "")
		return
	}
	if mode == "S" {
		// exact expectation from the reference executor with the subgraph's exclusive fields unavailable
		op, err := fedOpJSON(c.Operation, "Q")
		if err != nil {
			return
		}
		ref := *l.super
		refWith := func(failed [][2]string) (any, bool) {
			raw, err := run.Pool.Ask("fed.exec", map[string]any{"schema": map[string]any{"types": ref.Types, "query": ref.Query, "mutation": ref.Mutation, "failed": failed},
				"universe": c.Universe, "op": op, "vars": json.RawMessage(c.Variables)})
			if err != nil {
				run.Violate(Violation{Kind: "correspondence", Clause: "driver", Input: in, Detail: err.Error()}, "")
				return nil, false
			}
			var rr struct {
				Data json.RawMessage `json:"data"`
			}
			_ = json.Unmarshal(raw, &rr)
			var want any
			dec := json.NewDecoder(strings.NewReader(string(rr.Data)))
			dec.UseNumber()
			_ = dec.Decode(&want)
			return want, true
		}
		// upper bound: only the fields nobody else can supply are gone; lower bound: everything this subgraph declares is
		// gone (a field that is also resolvable elsewhere is decided by the plan, not by this check)
		high, ok1 := refWith(c07ExclusiveFields(l, victim.Subgraph))
		lowFailed := c07AllFields(l, victim.Subgraph)
		// requests that were not sent because they depend on failed ones: what they would have supplied is gone too
		sent := map[string]bool{}
		for _, ex := range faulty.Log {
			sent[ex.Subgraph+"|"+ex.Query] = true
		}
		skippedSubs := map[string]bool{}
		for _, ex := range clean.Log {
			if !sent[ex.Subgraph+"|"+ex.Query] && !skippedSubs[ex.Subgraph] {
				skippedSubs[ex.Subgraph] = true
				lowFailed = append(lowFailed, c07AllFields(l, ex.Subgraph)...)
			}
		}
		low, ok2 := refWith(lowFailed)
		if !ok1 || !ok2 {
			return
		}
		if !c07Nulled(faulty.Data, high) || !c07Nulled(low, faulty.Data) {
			run.Violate(Violation{Kind: "correspondence", Clause: "fault_reference", Input: in, Impl: faulty.Raw, Model: map[string]any{"atMost": high, "atLeast": low},
				Detail: fmt.Sprintf("all requests to %s failed (%s): gateway data %s is not between the reference with that subgraph's fields unavailable %s and the reference with only its exclusive fields unavailable %s", victim.Subgraph, kind,
					truncate(jsonStr(faulty.Data), 600), truncate(jsonStr(low), 500), truncate(jsonStr(high), 500))}, "")
		}
		run.mu.Lock()
		run.TracesVsImpl++
		run.mu.Unlock()
	}
}

func runC07(run *Run, replay string) Spec {
	spec := Spec{
		Level:       "translation_validation",
		Rule:        "cases as in C01; after the fault-free run, (S) every request to one subgraph or (K) every request with one (subgraph, operation) key is failed with one of six fault kinds (transport error, HTTP 500, empty body, non-JSON body, errors without data, wrong entity count): one well-formed response in bounded time, at least one error, the data is the fault-free data with subtrees nulled, in mode S exactly the reference execution with that subgraph's exclusive fields unavailable (Lean executor), and every request sent has a fault-free counterpart with the same operation and a subset of its representations; in addition taintedObjects.filterOutTainted is run (build-tag hook) on generated JSON items with marked entities: exactly the items that are or contain a marked entity are dropped (model-independent oracle), as the Lean model Misc.Taint says. non-trivial = a fault was actually injected; distinct = distinct (case, victim, fault)",
		TrustedBase: []string{"the Lean reference executor with unavailable coordinates as the meaning of 'null-propagated'", "fault injection in the harness' RoundTripper; exclusive-field computation from the subgraph SDLs"},
		Assumptions: []string{"mode S compares exactly only because in layout L1 a field is either exclusive to one subgraph or not decided by it; partial failures (mode K) are judged by the nulling order and the request rule", "timing: 'promptly' is a 20 s bound"},
	}
	if replay != "" {
		if b, err := os.ReadFile(replay); err == nil {
			var ft struct {
				Violation struct {
					Input c07TaintCase `json:"input"`
				} `json:"violation"`
			}
			if json.Unmarshal(b, &ft) == nil && ft.Violation.Input.Stream == "tainted_objects" {
				c07CheckTaint(run, ft.Violation.Input)
				return spec
			}
			var f struct {
				Violation struct {
					Input struct {
						Case *fedCase `json:"case"`
					} `json:"input"`
				} `json:"violation"`
			}
			if json.Unmarshal(b, &f) == nil && f.Violation.Input.Case != nil {
				for k := 0; k < 24; k++ {
					c07Check(run, f.Violation.Input.Case, rand.New(rand.NewSource(int64(k))), 0)
				}
				run.Count("replay")
			}
		}
		return spec
	}
	layouts, err := fedGetLayouts()
	if err != nil {
		run.Violate(Violation{Kind: "oracle", Clause: "layout_builds", Detail: err.Error()}, "")
		return spec
	}
	// tainted objects: filterOutTainted on generated items with marked entities (c07t.go)
	nTaint := 2000
	if run.Tier == "thorough" {
		nTaint = 100000
	}
	parallelFor(nTaint, 8, func(k int) {
		if run.NViolations() < 6 {
			c07CheckTaint(run, c07GenTaintCase(subRng(run.Seed+17, k)))
		}
	})
	n := 500
	if run.Tier == "thorough" {
		n = 15000
	}
	workers := 8
	var wg sync.WaitGroup
	ch := make(chan int, 64)
	for w := 0; w < workers; w++ {
		wg.Add(1)
		go func(w int) {
			defer wg.Done()
			for k := range ch {
				if run.NViolations() >= 6 {
					continue
				}
				r := subRng(run.Seed, k)
				l := layouts["L1"]
				u := fedL1Universe(r)
				for j := 0; j < 3; j++ {
					op, vars, _ := fedGenOperation(r, l.super, u)
					c := &fedCase{Layout: l.Name, Universe: u, Operation: op, Variables: string(vars)}
					c07Check(run, c, r, w)
					run.Count(op + string(vars) + fmt.Sprint(k, j))
				}
			}
		}(w)
	}
	for k := 0; k < n; k++ {
		ch <- k
	}
	close(ch)
	wg.Wait()
	_ = sort.Strings
	return spec
}
