package main

// C12 / C13 — subscription delivery and trigger lifecycle.
//
// The harness drives the real Resolver (AsyncResolveGraphQLSubscription, ResolveGraphQLSubscription,
// UnsubscribeSubscription, UnsubscribeClient, resolver shutdown) with a fake SubscriptionDataSource whose
// Start blocks until the scenario decides its outcome and which hands the SubscriptionUpdater to the
// scenario, recording writers, a counting Reporter and the verif yield points (to hold a goroutine
// between two lock regions while a racing operation runs).  Every scenario produces the sequence of
// model actions it performed; the Lean transition system GqlVerif.Proto.Subs must accept that sequence,
// and its observable state (every writer's call log, completion counts, Start calls, cancelled trigger
// contexts, registry sizes, reporter sums) must equal what the real code did.

import (
	"bytes"
	"context"
	"encoding/json"
	"errors"
	"fmt"
	"io"
	"math/rand"
	"net/http"
	"os"
	"path/filepath"
	"reflect"
	"runtime"
	"sort"
	"strconv"
	"strings"
	"sync"
	"sync/atomic"
	"time"

	"github.com/cespare/xxhash/v2"

	"github.com/wundergraph/graphql-go-tools/v2/pkg/engine/resolve"
)

func init() {
	props["C12"] = func(r *Run, replay string) Spec { return runC12(r, replay) }
	props["C13"] = func(r *Run, replay string) Spec { return runC12(r, replay) }
}

// ---- scenario -------------------------------------------------------------------------------------

type c12Op struct {
	Kind        string  `json:"kind"`
	I           int     `json:"i,omitempty"`
	Key         int     `json:"key,omitempty"`
	Hdr         int     `json:"hdr,omitempty"`
	Conn        int     `json:"conn,omitempty"`
	Filter      []int   `json:"filter,omitempty"`      // nil = none; else the residues (event number mod 5) that pass
	FilterStr   bool    `json:"filterStr,omitempty"`   // the filter compares the string field "stag" ("t<residue>") instead of the number "tag"
	WriteFailAt int     `json:"writeFailAt,omitempty"` // rendering the k-th message into the writer fails
	HB          bool    `json:"hb,omitempty"`
	Sync        bool    `json:"sync,omitempty"`
	FlushFailAt int     `json:"flushFailAt,omitempty"`
	HBFail      bool    `json:"hbFail,omitempty"`
	HookFail    bool    `json:"hookFail,omitempty"`
	G           int     `json:"g,omitempty"`
	Ok          bool    `json:"ok,omitempty"`
	X           *c12Op  `json:"x,omitempty"`    // the racing operation
	Then        []c12Op `json:"then,omitempty"` // operations performed while the first one is held
}

type c12Scenario struct {
	Ops []c12Op `json:"ops"`
}

// ---- recording writer --------------------------------------------------------------------------------

type c12Call struct {
	Kind string `json:"kind"`
	Raw  string `json:"raw,omitempty"`
	Seq  int64  `json:"seq"`
}

type c12Writer struct {
	w           *c12World
	i           int
	buf         bytes.Buffer
	inflight    atomic.Int32
	mu          sync.Mutex
	calls       []c12Call
	overlap     bool
	flushes     int
	flushFailAt int
	hbFail      bool
	writeFailAt int
	msgs        int // messages completed so far (flushed data or error reports)
	failedWrite int // render failures seen and not yet reported to the trace
	writeFailed bool
	parkKind    string        // park the next call of this kind while it is in flight ...
	parkRelease chan struct{} // ... until this is closed
	failedFlush int           // flush failures seen and not yet reported to the trace
	failedHB    int
	closes      int
	closeSeq    int64
	afterClose  []string
}

func (x *c12Writer) enter() {
	if x.inflight.Add(1) > 1 {
		x.mu.Lock()
		x.overlap = true
		x.mu.Unlock()
	}
	runtime.Gosched()
}
func (x *c12Writer) exit() { x.inflight.Add(-1) }

func (x *c12Writer) record(kind, raw string) {
	x.mu.Lock()
	var hold chan struct{}
	if x.parkKind == kind && x.parkRelease != nil {
		hold = x.parkRelease
		x.parkKind = ""
	}
	x.mu.Unlock()
	if hold != nil {
		x.w.signal(c12Signal{Point: "writer.inflight", Writer: x})
		select {
		case <-hold:
		case <-time.After(3 * c12Timeout):
		}
	}
	seq := x.w.seq.Add(1)
	x.mu.Lock()
	x.calls = append(x.calls, c12Call{Kind: kind, Raw: raw, Seq: seq})
	if x.closes > 0 {
		x.afterClose = append(x.afterClose, kind)
	}
	x.mu.Unlock()
}

func (x *c12Writer) Write(p []byte) (int, error) {
	x.enter()
	defer x.exit()
	x.mu.Lock()
	closed := x.closes > 0
	x.buf.Write(p)
	if closed {
		x.afterClose = append(x.afterClose, "write")
	}
	fail := x.writeFailAt > 0 && x.msgs+1 == x.writeFailAt
	if fail {
		x.writeFailed = true
	}
	x.mu.Unlock()
	if fail {
		return 0, errors.New("client gone")
	}
	return len(p), nil
}

func (x *c12Writer) Flush() error {
	x.enter()
	defer x.exit()
	x.mu.Lock()
	raw := x.buf.String()
	x.buf.Reset()
	x.flushes++
	x.msgs++
	fail := x.flushFailAt > 0 && x.flushes == x.flushFailAt
	if fail {
		x.failedFlush++
	}
	x.mu.Unlock()
	x.record("data", raw)
	if fail {
		return errors.New("client gone")
	}
	return nil
}

func (x *c12Writer) Complete() {
	x.enter()
	defer x.exit()
	x.record("complete", "")
}

func (x *c12Writer) Heartbeat() error {
	x.enter()
	defer x.exit()
	x.record("heartbeat", "")
	if x.hbFail {
		x.mu.Lock()
		x.failedHB++
		x.mu.Unlock()
		return errors.New("client gone")
	}
	return nil
}

func (x *c12Writer) Error(data []byte) {
	x.enter()
	defer x.exit()
	x.record("error", string(data))
}

type c12ErrWriter struct{}

func (c12ErrWriter) WriteError(ctx *resolve.Context, err error, res *resolve.GraphQLResponse, w io.Writer) {
	if x, ok := w.(*c12Writer); ok {
		x.enter()
		defer x.exit()
		x.mu.Lock()
		if x.writeFailed {
			x.failedWrite++
			x.writeFailed = false
		}
		x.buf.Reset()
		x.msgs++
		x.mu.Unlock()
		x.record("errorReport", err.Error())
	}
}

// ---- reporter ----------------------------------------------------------------------------------------

type c12Reporter struct {
	subInc, subDec, trigInc, trigDec, updates atomic.Int64
}

func (r *c12Reporter) SubscriptionUpdateSent()        { r.updates.Add(1) }
func (r *c12Reporter) SubscriptionCountInc(count int) { r.subInc.Add(int64(count)) }
func (r *c12Reporter) SubscriptionCountDec(count int) { r.subDec.Add(int64(count)) }
func (r *c12Reporter) TriggerCountInc(count int)      { r.trigInc.Add(int64(count)) }
func (r *c12Reporter) TriggerCountDec(count int)      { r.trigDec.Add(int64(count)) }

// ---- fake source -------------------------------------------------------------------------------------

type c12Gen struct {
	idx       int
	key, hdr  int
	updater   resolve.SubscriptionUpdater
	ctx       context.Context
	release   chan error
	noStart   bool // the creating subscriber's hook failed: Source.Start was never called
	released  bool
	lastEvent int
	hdrSeen   string
}

type c12Source struct{ w *c12World }

type c12Input struct {
	Key      int  `json:"key"`
	HookFail bool `json:"hookFail"`
}

func (s *c12Source) HashTriggerInput(input []byte, xxh *xxhash.Digest) error {
	var in c12Input
	if err := json.Unmarshal(input, &in); err != nil {
		return err
	}
	_, err := xxh.WriteString("key:" + strconv.Itoa(in.Key))
	return err
}

func (s *c12Source) Start(ctx *resolve.Context, headers http.Header, input []byte, updater resolve.SubscriptionUpdater) error {
	var in c12Input
	_ = json.Unmarshal(input, &in)
	g := &c12Gen{key: in.Key, updater: updater, ctx: ctx.Context(), release: make(chan error, 1), hdrSeen: headers.Get("X-Variant")}
	s.w.signal(c12Signal{Point: "start.called", Gen: g})
	return <-g.release
}

func (s *c12Source) SubscriptionOnStart(ctx resolve.StartupHookContext, input []byte) error {
	var in c12Input
	_ = json.Unmarshal(input, &in)
	if in.HookFail {
		return errors.New("startup hook rejected the subscription")
	}
	return nil
}

type c12Headers struct{ variant int }

func (h c12Headers) HeadersForSubgraph(string) (http.Header, uint64) {
	if h.variant == 0 {
		return nil, 0
	}
	return http.Header{"X-Variant": []string{strconv.Itoa(h.variant)}}, uint64(1000 + h.variant)
}
func (h c12Headers) HashAll() uint64 { return uint64(1000 + h.variant) }

// ---- world -------------------------------------------------------------------------------------------

type c12Signal struct {
	Point  string
	Gen    *c12Gen
	Writer *c12Writer
}

type c12Park struct {
	point   string
	writer  *c12Writer // nil = any
	once    bool       // only the first arrival parks
	trigger uint64     // 0 = any; else only subscriptions of the trigger with this id
	used    bool
	release chan struct{}
}

type c12SubInfo struct {
	id       resolve.SubscriptionIdentifier
	cancel   context.CancelFunc
	sync     bool
	returned chan error
	retSeq   int64
	didRet   bool
	key, hdr int
	conn     int
	subErr   error
}

type c12World struct {
	resolver *resolve.Resolver
	cancel   context.CancelFunc
	src      *c12Source
	rep      *c12Reporter
	seq      atomic.Int64

	mu       sync.Mutex
	sigs     []c12Signal
	notify   chan struct{}
	parks    []*c12Park
	writers  map[int]*c12Writer
	byPtr    map[uintptr]*c12Writer
	subs     map[int]*c12SubInfo
	gens     []*c12Gen
	trace    [][]any
	problems []string
	fatal    atomic.Bool
	shut     bool
	held     bool
	connBase int64
}

var c12Cur atomic.Pointer[c12World]
var c12ConnCounter atomic.Int64

func init() { c12ConnCounter.Store(1 << 40) }

func (w *c12World) signal(s c12Signal) {
	w.mu.Lock()
	w.sigs = append(w.sigs, s)
	w.mu.Unlock()
	select {
	case w.notify <- struct{}{}:
	default:
	}
}

func (w *c12World) problem(format string, a ...any) {
	w.mu.Lock()
	w.problems = append(w.problems, fmt.Sprintf(format, a...))
	w.mu.Unlock()
}

const c12Timeout = 8 * time.Second

// await removes and returns the first queued signal satisfying pred.
func (w *c12World) await(what string, pred func(c12Signal) bool) (c12Signal, bool) {
	deadline := time.After(c12Timeout)
	for {
		w.mu.Lock()
		for k, s := range w.sigs {
			if pred(s) {
				w.sigs = append(w.sigs[:k], w.sigs[k+1:]...)
				w.mu.Unlock()
				return s, true
			}
		}
		w.mu.Unlock()
		if w.fatal.Load() {
			return c12Signal{}, false
		}
		select {
		case <-w.notify:
		case <-time.After(20 * time.Millisecond):
		case <-deadline:
			w.problem("timeout waiting for %s", what)
			w.fatal.Store(true)
			return c12Signal{}, false
		}
	}
}

func (w *c12World) emit(a ...any) { w.trace = append(w.trace, a) }

// writerOfKey finds the recording writer behind a *subscriptionState hook key.
func (w *c12World) writerOfKey(key any) *c12Writer {
	v := reflect.ValueOf(key)
	if v.Kind() != reflect.Ptr || v.IsNil() {
		return nil
	}
	e := v.Elem()
	if e.Kind() != reflect.Struct {
		return nil
	}
	f := e.FieldByName("writer")
	if !f.IsValid() || f.Kind() != reflect.Interface || f.IsNil() {
		return nil
	}
	p := f.Elem()
	if p.Kind() != reflect.Ptr {
		return nil
	}
	w.mu.Lock()
	defer w.mu.Unlock()
	return w.byPtr[p.Pointer()]
}

func c12Hook(point string, key any) {
	w := c12Cur.Load()
	if w == nil {
		return
	}
	if !strings.HasPrefix(point, "sub.") && !strings.HasPrefix(point, "trigger.") && !strings.HasPrefix(point, "unsub.") &&
		!strings.HasPrefix(point, "done.") && !strings.HasPrefix(point, "resolver.") {
		return
	}
	var wr *c12Writer
	if strings.HasPrefix(point, "sub.") {
		wr = w.writerOfKey(key)
	}
	if point == "sub.completed.beforeClose" && wr != nil {
		wr.mu.Lock()
		wr.closes++
		n := wr.closes
		wr.closeSeq = w.seq.Add(1)
		busy := wr.inflight.Load()
		wr.mu.Unlock()
		if busy > 0 {
			w.problem("completed channel of subscriber %d closed while a writer call was in flight", wr.i)
		}
		if n > 1 {
			// a second close would panic and take the process down: record it and hold the goroutine forever
			w.problem("completed channel of subscriber %d closed twice", wr.i)
			w.fatal.Store(true)
			select {}
		}
	}
	// parking
	var park *c12Park
	w.mu.Lock()
	for _, p := range w.parks {
		if p.point == point && (p.writer == nil || p.writer == wr) && !(p.once && p.used) && (p.trigger == 0 || p.trigger == c12TriggerID(key)) {
			select {
			case <-p.release:
				continue
			default:
			}
			p.used = true
			park = p
			break
		}
	}
	w.mu.Unlock()
	if park != nil {
		w.signal(c12Signal{Point: "parked:" + point, Writer: wr})
		select {
		case <-park.release:
		case <-time.After(3 * c12Timeout):
		}
		return
	}
	switch point {
	case "sub.hook.finished", "trigger.start.returned", "trigger.start.finished", "resolver.shutdown.finished":
		w.signal(c12Signal{Point: point, Writer: wr})
	}
}

// c12TriggerID reads the unexported triggerID of a *subscriptionState or *subscriptionUpdater
func c12TriggerID(key any) uint64 {
	v := reflect.ValueOf(key)
	if v.Kind() == reflect.Interface {
		v = v.Elem()
	}
	if v.Kind() != reflect.Ptr || v.IsNil() || v.Elem().Kind() != reflect.Struct {
		return 0
	}
	f := v.Elem().FieldByName("triggerID")
	if !f.IsValid() || f.Kind() != reflect.Uint64 {
		return 0
	}
	return f.Uint()
}

func (w *c12World) arm(point string, wr *c12Writer, once bool) *c12Park {
	p := &c12Park{point: point, writer: wr, once: once, release: make(chan struct{})}
	w.mu.Lock()
	w.parks = append(w.parks, p)
	w.mu.Unlock()
	return p
}

func c12Plan(src *c12Source, i int, op c12Op) *resolve.GraphQLSubscription {
	input := fmt.Sprintf(`{"key":%d,"hookFail":%v}`, op.Key, op.HookFail)
	sub := &resolve.GraphQLSubscription{
		Trigger: resolve.GraphQLSubscriptionTrigger{
			InputTemplate: resolve.InputTemplate{Segments: []resolve.TemplateSegment{{SegmentType: resolve.StaticSegmentType, Data: []byte(input)}}},
			Source:        src,
			SourceName:    "events",
			PostProcessing: resolve.PostProcessingConfiguration{
				SelectResponseDataPath:   []string{"data"},
				SelectResponseErrorsPath: []string{"errors"},
			},
		},
		Response: &resolve.GraphQLResponse{
			Data: &resolve.Object{Fields: []*resolve.Field{{Name: []byte("a" + strconv.Itoa(i%3)), Value: &resolve.Integer{Path: []string{"counter"}}}}},
		},
	}
	if op.Filter != nil {
		var values []resolve.InputTemplate
		field := "tag"
		for _, r := range op.Filter {
			lit := strconv.Itoa(r)
			if op.FilterStr {
				lit = `"t` + lit + `"`
			}
			values = append(values, resolve.InputTemplate{Segments: []resolve.TemplateSegment{{SegmentType: resolve.StaticSegmentType, Data: []byte(lit)}}})
		}
		if op.FilterStr {
			field = "stag"
		}
		sub.Filter = &resolve.SubscriptionFilter{In: &resolve.SubscriptionFieldFilter{FieldPath: []string{"data", field}, Values: values}}
	}
	return sub
}

func c12Event(g, n int) []byte {
	return []byte(fmt.Sprintf(`{"data":{"counter":%d,"tag":%d,"stag":"t%d"}}`, g*1000+n, n%5, n%5))
}

func (w *c12World) modelKey(key, hdr int) int { return key*4 + hdr }

// guarded runs f and converts a panic into a problem
func (w *c12World) guarded(what string, f func()) {
	defer func() {
		if pv := recover(); pv != nil {
			w.problem("%s panicked: %v", what, pv)
			w.fatal.Store(true)
		}
	}()
	f()
}

func (w *c12World) flushFailures() {
	// a failed flush / heartbeat makes the resolver unsubscribe that subscriber itself
	w.mu.Lock()
	ws := make([]*c12Writer, 0, len(w.writers))
	for _, x := range w.writers {
		ws = append(ws, x)
	}
	w.mu.Unlock()
	for i := 0; i < len(ws); i++ {
		for j := i + 1; j < len(ws); j++ {
			if ws[j].i < ws[i].i {
				ws[i], ws[j] = ws[j], ws[i]
			}
		}
	}
	for _, x := range ws {
		x.mu.Lock()
		n := x.failedFlush + x.failedHB
		x.failedFlush, x.failedHB = 0, 0
		x.mu.Unlock()
		for ; n > 0; n-- {
			w.emit("unsubscribe", x.i)
		}
	}
}

// emitFan emits a whole data fan-out; writers whose rendering failed got an error report instead
func (w *c12World) emitFan(g, n int, only any) {
	failed := w.takeFailedWrites()
	if len(failed) == 0 {
		w.emit("event", g, n, only)
		w.flushFailures()
		return
	}
	w.emit("fanBegin", g, n, only)
	for _, i := range failed {
		w.emit("fanOne", g, i, true)
	}
	w.emit("fanAll", g)
	w.flushFailures()
	w.emit("fanEnd", g)
}

func (w *c12World) takeFailedWrites() []int {
	w.mu.Lock()
	ids := make([]int, 0, len(w.writers))
	for i := range w.writers {
		ids = append(ids, i)
	}
	w.mu.Unlock()
	sort.Ints(ids)
	var out []int
	for _, i := range ids {
		x := w.writers[i]
		x.mu.Lock()
		if x.failedWrite > 0 {
			out = append(out, i)
			x.failedWrite = 0
		}
		x.mu.Unlock()
	}
	return out
}

func (w *c12World) doSubscribe(op c12Op) {
	i := op.I
	wr := &c12Writer{w: w, i: i, flushFailAt: op.FlushFailAt, hbFail: op.HBFail, writeFailAt: op.WriteFailAt}
	cctx, cancel := context.WithCancel(context.Background())
	info := &c12SubInfo{cancel: cancel, sync: op.Sync, returned: make(chan error, 1), key: op.Key, hdr: op.Hdr, conn: op.Conn}
	info.id = resolve.SubscriptionIdentifier{ConnectionID: resolve.ConnectionID(w.connBase + int64(op.Conn)), SubscriptionID: int64(i)}
	w.mu.Lock()
	w.writers[i] = wr
	w.byPtr[reflect.ValueOf(wr).Pointer()] = wr
	w.subs[i] = info
	w.mu.Unlock()
	rctx := resolve.NewContext(cctx)
	rctx.ExecutionOptions.SendHeartbeat = op.HB
	rctx.SubgraphHeadersBuilder = c12Headers{variant: op.Hdr}
	plan := c12Plan(w.src, i, op)
	if op.Sync {
		go func() {
			var err error
			w.guarded("ResolveGraphQLSubscription", func() { err = w.resolver.ResolveGraphQLSubscription(rctx, plan, wr) })
			w.mu.Lock()
			info.retSeq = w.seq.Add(1)
			info.didRet = true
			w.mu.Unlock()
			info.returned <- err
		}()
	} else {
		var err error
		w.guarded("AsyncResolveGraphQLSubscription", func() { err = w.resolver.AsyncResolveGraphQLSubscription(rctx, plan, wr, info.id) })
		if err != nil {
			info.subErr = err
			if !w.shut {
				w.problem("subscribe %d failed: %v", i, err)
			}
			return
		}
	}
	if w.shut {
		if op.Sync {
			select {
			case err := <-info.returned:
				info.returned <- err
				info.subErr = err
				if err == nil {
					w.problem("subscribe %d after shutdown was accepted", i)
				}
			case <-time.After(c12Timeout):
				w.problem("sync subscribe after shutdown did not return")
			}
			return
		}
		w.problem("subscribe %d after shutdown was accepted", i)
		return
	}
	filter := any(nil)
	if op.Filter != nil {
		filter = op.Filter
	}
	w.emit("subscribe", i, w.modelKey(op.Key, op.Hdr), op.Conn, filter, op.HB)
	sig, ok := w.await(fmt.Sprintf("start of subscriber %d", i), func(s c12Signal) bool {
		return s.Point == "start.called" || s.Point == "trigger.start.returned" || s.Point == "sub.hook.finished"
	})
	if !ok {
		return
	}
	switch sig.Point {
	case "start.called":
		g := sig.Gen
		g.idx = len(w.gens)
		g.hdr = op.Hdr
		w.gens = append(w.gens, g)
		w.emit("startCall", g.idx)
		wantHdr := ""
		if op.Hdr != 0 {
			wantHdr = strconv.Itoa(op.Hdr)
		}
		if g.key != op.Key || g.hdrSeen != wantHdr {
			w.problem("Start of generation %d received input/headers of another subscription (key %d hdr %q, want %d/%d)", g.idx, g.key, g.hdrSeen, op.Key, op.Hdr)
		}
	case "trigger.start.returned":
		// the creating subscriber's startup hook failed: the trigger is torn down without calling Start
		g := &c12Gen{idx: len(w.gens), key: op.Key, hdr: op.Hdr, noStart: true, released: true}
		w.gens = append(w.gens, g)
		if _, ok := w.await("trigger goroutine end", func(s c12Signal) bool { return s.Point == "trigger.start.finished" }); !ok {
			return
		}
		w.emit("startFailAll", g.idx)
		w.emit("drain")
	case "sub.hook.finished":
		if op.HookFail {
			w.emit("hookFail", i)
			w.emit("drain")
		}
	}
}

func (w *c12World) gen(g int) *c12Gen {
	if g < 0 || g >= len(w.gens) {
		return nil
	}
	return w.gens[g]
}

func (w *c12World) doUnsubscribe(i int) {
	info := w.subs[i]
	if info == nil {
		return
	}
	if info.sync && w.held {
		// its goroutine waits for the completed channel, which the held operation has not closed yet
		return
	}
	if info.sync {
		info.cancel()
		w.emit("cancelCtx", i)
		select {
		case err := <-info.returned:
			info.returned <- err
		case <-time.After(c12Timeout):
			w.problem("ResolveGraphQLSubscription of %d did not return after its context was cancelled", i)
			w.fatal.Store(true)
			return
		}
		if !w.shut {
			w.emit("unsubscribe", i)
			w.emit("drain")
		}
		return
	}
	w.guarded("UnsubscribeSubscription", func() { _ = w.resolver.UnsubscribeSubscription(info.id) })
	if !w.shut {
		w.emit("unsubscribe", i)
		w.emit("drain")
	}
}

func (w *c12World) doShutdown() {
	if w.shut {
		return
	}
	w.cancel()
	if _, ok := w.await("resolver shutdown", func(s c12Signal) bool { return s.Point == "resolver.shutdown.finished" }); !ok {
		return
	}
	w.shut = true
	w.emit("shutdown")
	w.emit("drain")
}

// simple (non-racing) operations; returns false when the op was not applicable
func (w *c12World) doSimple(op c12Op) {
	switch op.Kind {
	case "sub":
		w.doSubscribe(op)
	case "unsub":
		w.doUnsubscribe(op.I)
	case "cancelCtx":
		if info := w.subs[op.I]; info != nil && !info.sync {
			info.cancel()
			w.emit("cancelCtx", op.I)
		}
	case "removeClient":
		w.guarded("UnsubscribeClient", func() { _ = w.resolver.UnsubscribeClient(resolve.ConnectionID(w.connBase + int64(op.Conn))) })
		if !w.shut {
			w.emit("removeClient", op.Conn)
			w.emit("drain")
		}
	case "event", "eventOne":
		g := w.gen(op.G)
		if g == nil || g.noStart {
			return
		}
		if op.Kind == "eventOne" {
			// the blocking API allocates its subscription identifier internally: not addressable from here
			if info := w.subs[op.I]; info == nil || info.sync {
				return
			}
		}
		g.lastEvent++
		n := g.lastEvent
		only := any(nil)
		if op.Kind == "eventOne" {
			info := w.subs[op.I]
			only = op.I
			w.guarded("UpdateSubscription", func() { g.updater.UpdateSubscription(info.id, c12Event(g.idx, n)) })
		} else {
			w.guarded("Update", func() { g.updater.Update(c12Event(g.idx, n)) })
		}
		w.emitFan(g.idx, n, only)
		w.emit("drain")
	case "complete", "error":
		g := w.gen(op.G)
		if g == nil || g.noStart {
			return
		}
		if op.Kind == "complete" {
			w.guarded("Complete", func() { g.updater.Complete() })
		} else {
			w.guarded("Error", func() { g.updater.Error([]byte(`{"errors":[{"message":"upstream failed"}]}`)) })
		}
		w.emit("event", g.idx, op.Kind, nil)
	case "done":
		g := w.gen(op.G)
		if g == nil || g.noStart {
			return
		}
		w.guarded("Done", func() { g.updater.Done() })
		w.emit("doneOnce", g.idx)
		w.emit("drain")
	case "heartbeat":
		g := w.gen(op.G)
		if g == nil || g.noStart {
			return
		}
		hb, ok := g.updater.(interface{ Heartbeat() })
		if !ok {
			return
		}
		w.guarded("Heartbeat", func() { hb.Heartbeat() })
		w.emit("heartbeatAll", g.idx)
		w.flushFailures()
		w.emit("drain")
	case "closeSub":
		g := w.gen(op.G)
		info := w.subs[op.I]
		if g == nil || g.noStart || info == nil || info.sync {
			return
		}
		w.guarded("CloseSubscription", func() { g.updater.CloseSubscription(info.id) })
		if !w.shut {
			w.emit("closeSub", g.idx, op.I)
			w.emit("drain")
		}
	case "startOk", "startFail":
		g := w.gen(op.G)
		if g == nil || g.released {
			return
		}
		g.released = true
		if op.Kind == "startOk" {
			g.release <- nil
		} else {
			g.release <- errors.New("upstream refused")
		}
		if _, ok := w.await("trigger goroutine end", func(s c12Signal) bool { return s.Point == "trigger.start.finished" }); !ok {
			return
		}
		// "trigger.start.returned" was not parked: drop its signal
		w.dropSignals("trigger.start.returned")
		if op.Kind == "startOk" {
			w.emit("startOk", g.idx)
		} else {
			w.emit("startFailAll", g.idx)
			w.emit("drain")
		}
	case "shutdown":
		w.doShutdown()
	}
}

func (w *c12World) dropSignals(point string) {
	w.mu.Lock()
	out := w.sigs[:0]
	for _, s := range w.sigs {
		if s.Point != point {
			out = append(out, s)
		}
	}
	w.sigs = out
	w.mu.Unlock()
}

// racing operations: hold one goroutine between two lock regions while other operations run
func (w *c12World) doRace(op c12Op) {
	switch op.Kind {
	case "raceEvent": // an Update is between its snapshot and its writes while `then` runs
		g := w.gen(op.G)
		if g == nil || g.noStart {
			return
		}
		g.lastEvent++
		n := g.lastEvent
		park := w.arm("sub.update.beforeWriteLock", nil, false)
		park.trigger = c12TriggerID(g.updater)
		ret := make(chan struct{})
		go func() {
			w.guarded("Update", func() { g.updater.Update(c12Event(g.idx, n)) })
			close(ret)
		}()
		parked := false
		deadline := time.After(c12Timeout)
	wait:
		for {
			w.mu.Lock()
			for k, s := range w.sigs {
				if s.Point == "parked:sub.update.beforeWriteLock" {
					w.sigs = append(w.sigs[:k], w.sigs[k+1:]...)
					parked = true
					break
				}
			}
			w.mu.Unlock()
			if parked {
				break
			}
			select {
			case <-ret:
				break wait
			case <-w.notify:
			case <-time.After(10 * time.Millisecond):
			case <-deadline:
				w.problem("timeout in raceEvent")
				w.fatal.Store(true)
				break wait
			}
		}
		if !parked {
			close(park.release)
			w.emitFan(g.idx, n, nil)
			w.emit("drain")
			return
		}
		w.emit("fanBegin", g.idx, n, nil)
		for _, t := range op.Then {
			if t.Kind == "event" || t.Kind == "eventOne" || t.Kind == "complete" || t.Kind == "error" || t.Kind == "done" || t.Kind == "heartbeat" || t.Kind == "closeSub" {
				if t.G == op.G {
					continue // needs the updater's mutex, which the held Update owns
				}
			}
			w.doSimple(t)
		}
		close(park.release)
		select {
		case <-ret:
		case <-time.After(c12Timeout):
			w.problem("Update did not return after release")
			w.fatal.Store(true)
			return
		}
		w.dropSignals("parked:sub.update.beforeWriteLock")
		for _, i := range w.takeFailedWrites() {
			w.emit("fanOne", g.idx, i, true)
		}
		w.emit("fanAll", g.idx)
		w.flushFailures()
		w.emit("fanEnd", g.idx)
		w.emit("drain")
	case "raceComplete", "raceError": // Complete/Error is about to call one subscriber while `then` runs
		g := w.gen(op.G)
		if g == nil || g.noStart {
			return
		}
		point := "sub.complete.beforeCall"
		kind := "complete"
		if op.Kind == "raceError" {
			point, kind = "sub.error.beforeCall", "error"
		}
		park := w.arm(point, nil, true)
		park.trigger = c12TriggerID(g.updater)
		ret := make(chan struct{})
		go func() {
			if kind == "complete" {
				w.guarded("Complete", func() { g.updater.Complete() })
			} else {
				w.guarded("Error", func() { g.updater.Error([]byte(`{"errors":[{"message":"upstream failed"}]}`)) })
			}
			close(ret)
		}()
		var victim *c12Writer
		parked := false
		deadline := time.After(c12Timeout)
	wait2:
		for {
			w.mu.Lock()
			for k, s := range w.sigs {
				if s.Point == "parked:"+point {
					w.sigs = append(w.sigs[:k], w.sigs[k+1:]...)
					parked = true
					victim = s.Writer
					break
				}
			}
			w.mu.Unlock()
			if parked {
				break
			}
			select {
			case <-ret:
				break wait2
			case <-w.notify:
			case <-time.After(10 * time.Millisecond):
			case <-deadline:
				w.problem("timeout in %s", op.Kind)
				w.fatal.Store(true)
				break wait2
			}
		}
		if !parked {
			close(park.release)
			w.emit("event", g.idx, kind, nil)
			return
		}
		w.emit("fanBegin", g.idx, kind, nil)
		// the loop is sequential: subscribers visited before the victim have been written to already — none, the
		// park is at the first one reached
		for _, t := range op.Then {
			if t.G == op.G && (t.Kind == "event" || t.Kind == "eventOne" || t.Kind == "complete" || t.Kind == "error" || t.Kind == "done" || t.Kind == "heartbeat" || t.Kind == "closeSub") {
				continue
			}
			if t.Kind == "unsubVictim" {
				if victim != nil {
					w.doUnsubscribe(victim.i)
				}
				continue
			}
			w.doSimple(t)
		}
		close(park.release)
		select {
		case <-ret:
		case <-time.After(c12Timeout):
			w.problem("%s did not return after release", kind)
			w.fatal.Store(true)
			return
		}
		w.emit("fanAll", g.idx)
		w.emit("fanEnd", g.idx)
	case "raceWrite": // a writer call of subscriber I is in flight while the subscriber is removed
		g := w.gen(op.G)
		wr := w.writers[op.I]
		info := w.subs[op.I]
		if g == nil || g.noStart || wr == nil || info == nil || info.sync || w.shut {
			return
		}
		g.lastEvent++
		n := g.lastEvent
		release := make(chan struct{})
		wr.mu.Lock()
		wr.parkKind = "data"
		if wr.writeFailAt > 0 && wr.msgs+1 == wr.writeFailAt {
			wr.parkKind = "errorReport"
		}
		if wr.closes > 0 {
			wr.parkKind = "" // already completed: nothing may be in flight any more
		}
		wr.parkRelease = release
		wr.mu.Unlock()
		ret := make(chan struct{})
		go func() {
			w.guarded("Update", func() { g.updater.Update(c12Event(g.idx, n)) })
			close(ret)
		}()
		inflight := false
		deadline := time.After(c12Timeout)
	wait4:
		for {
			w.mu.Lock()
			for k, s := range w.sigs {
				if s.Point == "writer.inflight" {
					w.sigs = append(w.sigs[:k], w.sigs[k+1:]...)
					inflight = true
					break
				}
			}
			w.mu.Unlock()
			if inflight {
				break
			}
			select {
			case <-ret:
				break wait4
			case <-w.notify:
			case <-time.After(10 * time.Millisecond):
			case <-deadline:
				w.problem("timeout in raceWrite")
				w.fatal.Store(true)
				break wait4
			}
		}
		wr.mu.Lock()
		wr.parkKind, wr.parkRelease = "", nil
		wr.mu.Unlock()
		if !inflight {
			close(release)
			w.emitFan(g.idx, n, nil)
			w.emit("drain")
			return
		}
		// remove the subscriber on another goroutine: closing its completed channel must wait for the call in flight
		unsubRet := make(chan struct{})
		go func() {
			w.guarded("UnsubscribeSubscription", func() { _ = w.resolver.UnsubscribeSubscription(info.id) })
			close(unsubRet)
		}()
		time.Sleep(15 * time.Millisecond)
		close(release)
		for _, c := range []chan struct{}{ret, unsubRet} {
			select {
			case <-c:
			case <-time.After(c12Timeout):
				w.problem("raceWrite: operation did not return after release")
				w.fatal.Store(true)
				return
			}
		}
		w.emit("fanBegin", g.idx, n, nil)
		failed := false
		for _, i := range w.takeFailedWrites() {
			w.emit("fanOne", g.idx, i, true)
			failed = failed || i == op.I
		}
		if !failed {
			w.emit("fanOne", g.idx, op.I, false)
		}
		w.emit("unsubscribe", op.I)
		w.emit("fanAll", g.idx)
		w.flushFailures()
		w.emit("fanEnd", g.idx)
		w.emit("drain")
	case "raceStart": // Start has returned; markTriggerInitialized / the failure teardown has not run yet
		g := w.gen(op.G)
		if g == nil || g.released {
			return
		}
		g.released = true
		park := w.arm("trigger.start.returned", nil, true)
		if op.Ok {
			g.release <- nil
		} else {
			g.release <- errors.New("upstream refused")
		}
		if _, ok := w.await("parked trigger goroutine", func(s c12Signal) bool { return s.Point == "parked:trigger.start.returned" }); !ok {
			return
		}
		for _, t := range op.Then {
			w.doSimple(t)
		}
		close(park.release)
		if _, ok := w.await("trigger goroutine end", func(s c12Signal) bool { return s.Point == "trigger.start.finished" }); !ok {
			return
		}
		if op.Ok {
			w.emit("startOk", g.idx)
		} else {
			w.emit("startFailAll", g.idx)
			w.emit("drain")
		}
	case "raceUnsub", "raceDone": // registry part done; completed channels not yet closed, trigger context not yet cancelled
		var ret = make(chan struct{})
		var park *c12Park
		if op.Kind == "raceUnsub" {
			info := w.subs[op.I]
			if info == nil || info.sync || w.shut {
				return
			}
			park = w.arm("unsub.beforeClose", nil, true)
			go func() {
				w.guarded("UnsubscribeSubscription", func() { _ = w.resolver.UnsubscribeSubscription(info.id) })
				close(ret)
			}()
			if _, ok := w.await("parked unsubscribe", func(s c12Signal) bool { return s.Point == "parked:unsub.beforeClose" }); !ok {
				return
			}
			w.emit("unsubscribe", op.I)
			w.emit("hold")
		} else {
			g := w.gen(op.G)
			if g == nil || g.noStart {
				return
			}
			park = w.arm("done.beforeClose", nil, true)
			go func() {
				w.guarded("Done", func() { g.updater.Done() })
				close(ret)
			}()
			parked := false
			deadline := time.After(c12Timeout)
		wait3:
			for {
				w.mu.Lock()
				for k, s := range w.sigs {
					if s.Point == "parked:done.beforeClose" {
						w.sigs = append(w.sigs[:k], w.sigs[k+1:]...)
						parked = true
						break
					}
				}
				w.mu.Unlock()
				if parked {
					break
				}
				select {
				case <-ret: // Done was a no-op (already done)
					break wait3
				case <-w.notify:
				case <-time.After(10 * time.Millisecond):
				case <-deadline:
					w.problem("timeout in raceDone")
					w.fatal.Store(true)
					break wait3
				}
			}
			w.emit("doneOnce", g.idx)
			if !parked {
				close(park.release)
				w.emit("drain")
				return
			}
			w.emit("hold")
		}
		for _, t := range op.Then {
			if op.Kind == "raceDone" && t.G == op.G && (t.Kind == "event" || t.Kind == "eventOne" || t.Kind == "complete" || t.Kind == "error" || t.Kind == "done" || t.Kind == "heartbeat" || t.Kind == "closeSub") {
				continue // the held Done owns the updater's mutex
			}
			if t.Kind == "shutdown" {
				continue // shutdown's own closes would interleave with the held ones
			}
			w.doSimpleHeld(t)
		}
		close(park.release)
		select {
		case <-ret:
		case <-time.After(c12Timeout):
			w.problem("%s did not return after release", op.Kind)
			w.fatal.Store(true)
			return
		}
		w.emit("release")
		w.emit("drain")
	}
}

// doSimpleHeld performs a simple op while another operation is parked between its registry part and its
// close/cancel part (the trace has a "hold" marker: drains leave the parked operation's pending calls alone).
func (w *c12World) doSimpleHeld(op c12Op) {
	w.held = true
	w.doSimple(op)
	w.held = false
}

// ---- running a scenario ------------------------------------------------------------------------------

type c12Observed struct {
	Subs     []map[string]any `json:"subs"`
	Gens     []map[string]any `json:"gens"`
	Reg      map[string]int64 `json:"registry"`
	Problems []string         `json:"problems"`
}

type c12Result struct {
	Trace    [][]any         `json:"trace"`
	Observed c12Observed     `json:"observed"`
	Model    json.RawMessage `json:"model"`
}

func c12RunScenario(sc *c12Scenario) (*c12World, *c12Result) {
	rootCtx, cancel := context.WithCancel(context.Background())
	w := &c12World{cancel: cancel, rep: &c12Reporter{}, notify: make(chan struct{}, 1), writers: map[int]*c12Writer{},
		byPtr: map[uintptr]*c12Writer{}, subs: map[int]*c12SubInfo{}, connBase: c12ConnCounter.Add(1 << 12)}
	w.src = &c12Source{w: w}
	c12Cur.Store(w)
	w.resolver = resolve.New(rootCtx, resolve.ResolverOptions{
		MaxConcurrency: 32, Reporter: w.rep, AsyncErrorWriter: c12ErrWriter{},
		SubscriptionHeartbeatInterval: time.Hour, MaxSubscriptionFetchTimeout: 30 * time.Second,
	})
	for _, op := range sc.Ops {
		if w.fatal.Load() {
			break
		}
		if strings.HasPrefix(op.Kind, "race") {
			w.doRace(op)
		} else {
			w.doSimple(op)
		}
	}
	if !w.fatal.Load() {
		// let every blocked Start return so that no goroutine of this scenario stays behind
		for _, g := range w.gens {
			if !g.released && !g.noStart {
				g.released = true
				g.release <- nil
				if _, ok := w.await("trigger goroutine end", func(s c12Signal) bool { return s.Point == "trigger.start.finished" }); !ok {
					break
				}
				w.dropSignals("trigger.start.returned")
				w.emit("startOk", g.idx)
			}
		}
	}
	res := &c12Result{Trace: w.trace}
	// observation: a blocking subscriber whose completion was signalled returns on its own goroutine
	for i, info := range w.subs {
		if !info.sync || w.fatal.Load() {
			continue
		}
		x := w.writers[i]
		x.mu.Lock()
		closed := x.closes > 0
		x.mu.Unlock()
		if closed {
			select {
			case err := <-info.returned:
				info.returned <- err
			case <-time.After(c12Timeout):
			}
		}
	}
	ids := make([]int, 0, len(w.writers))
	for i := range w.writers {
		ids = append(ids, i)
	}
	for a := 0; a < len(ids); a++ {
		for b := a + 1; b < len(ids); b++ {
			if ids[b] < ids[a] {
				ids[a], ids[b] = ids[b], ids[a]
			}
		}
	}
	for _, i := range ids {
		x := w.writers[i]
		info := w.subs[i]
		x.mu.Lock()
		log := []string{}
		for _, c := range x.calls {
			switch c.Kind {
			case "data":
				log = append(log, c12DecodeData(i, c.Raw))
			case "startError":
				log = append(log, "errorReport")
			default:
				log = append(log, c.Kind)
			}
		}
		m := map[string]any{"id": i, "log": log, "closed": x.closes, "overlap": x.overlap, "afterClose": x.afterClose, "accepted": info.subErr == nil}
		x.mu.Unlock()
		if info.sync {
			w.mu.Lock()
			m["returned"] = info.didRet
			retSeq := info.didRet
			var late []string
			if retSeq {
				x.mu.Lock()
				for _, c := range x.calls {
					if c.Seq > info.retSeq {
						late = append(late, c.Kind)
					}
				}
				x.mu.Unlock()
			}
			w.mu.Unlock()
			m["afterReturn"] = late
		}
		res.Observed.Subs = append(res.Observed.Subs, m)
	}
	for _, g := range w.gens {
		m := map[string]any{"g": g.idx, "noStart": g.noStart}
		if g.ctx != nil {
			m["cancelled"] = g.ctx.Err() != nil
		}
		res.Observed.Gens = append(res.Observed.Gens, m)
	}
	t, s, c := resolve.VerifRegistrySizes(w.resolver)
	res.Observed.Reg = map[string]int64{"triggers": int64(t), "subscriptions": int64(s), "connections": int64(c),
		"subInc": w.rep.subInc.Load(), "subDec": w.rep.subDec.Load(), "trigInc": w.rep.trigInc.Load(), "trigDec": w.rep.trigDec.Load()}
	w.mu.Lock()
	res.Observed.Problems = append([]string{}, w.problems...)
	w.mu.Unlock()
	// tear down whatever is left
	if !w.shut {
		w.cancel()
		if !w.fatal.Load() {
			w.await("resolver shutdown", func(s c12Signal) bool { return s.Point == "resolver.shutdown.finished" })
		}
	}
	for _, info := range w.subs {
		info.cancel()
	}
	c12Cur.Store(nil)
	return w, res
}

// c12DecodeData checks a data payload against the response this subscriber's own plan produces for the
// event and names the event: "data:g:n", or "data?<raw>" when the payload is not that response.
func c12DecodeData(i int, raw string) string {
	prefix := fmt.Sprintf(`{"data":{"a%d":`, i%3)
	if strings.HasPrefix(raw, prefix) && strings.HasSuffix(raw, "}}") {
		num := raw[len(prefix) : len(raw)-2]
		if v, err := strconv.Atoi(num); err == nil {
			return fmt.Sprintf("data:%d:%d", v/1000, v%1000)
		}
	}
	return "data?" + raw
}

// ---- judge -------------------------------------------------------------------------------------------

func c12Judge(run *Run, sc *c12Scenario, res *c12Result) {
	in := map[string]any{"scenario": sc}
	raw, err := run.Pool.Ask("c12.run", map[string]any{"trace": res.Trace, "subs": c12SubIDs(res), "gens": len(res.Observed.Gens)})
	if err != nil {
		run.Violate(Violation{Kind: "correspondence", Clause: "driver", Input: in, Detail: err.Error()}, "")
		return
	}
	res.Model = raw
	var m struct {
		Accepted   bool `json:"accepted"`
		RejectedAt *int `json:"rejectedAt"`
		Subs       []struct {
			ID         int      `json:"id"`
			Missing    bool     `json:"missing"`
			Removed    bool     `json:"removed"`
			Closed     int      `json:"closed"`
			Registered bool     `json:"registered"`
			Log        []string `json:"log"`
		} `json:"subs"`
		Gens []struct {
			G         int  `json:"g"`
			Started   int  `json:"started"`
			Cancelled bool `json:"cancelled"`
		} `json:"gens"`
	}
	_ = json.Unmarshal(raw, &m)
	var generic map[string]any
	_ = json.Unmarshal(raw, &generic)
	num := func(k string) int64 {
		if f, ok := generic[k].(float64); ok {
			return int64(f)
		}
		return -1
	}
	c12 := run.Prop == "C12"
	viol := func(forC12 bool, clause, detail string) {
		if forC12 != c12 {
			return
		}
		run.Violate(Violation{Kind: "correspondence", Clause: clause, Input: in, Impl: res.Observed, Model: json.RawMessage(raw),
			Detail: detail + " | trace=" + truncate(jsonStr(res.Trace), 1500)}, "")
	}
	// oracles evaluated on the implementation's observed behaviour alone (no model involved)
	oracle := func(forC12 bool, clause, detail string) {
		if forC12 != c12 {
			return
		}
		run.Violate(Violation{Kind: "oracle", Clause: clause, Input: in, Impl: res.Observed, Detail: detail + " | trace=" + truncate(jsonStr(res.Trace), 1500)}, "")
	}
	subOps := map[int]c12Op{}
	var collect func(ops []c12Op)
	collect = func(ops []c12Op) {
		for _, op := range ops {
			if op.Kind == "sub" {
				subOps[op.I] = op
			}
			collect(op.Then)
		}
	}
	collect(sc.Ops)
	// the data events of every trigger as the scenario emitted them: event number and, for UpdateSubscription, the one target
	type c12Emitted struct {
		n    int
		only any
	}
	emitted := map[int][]c12Emitted{}
	for _, t := range res.Trace {
		if len(t) == 4 && (t[0] == "event" || t[0] == "fanBegin") {
			g, ok1 := t[1].(int)
			n, ok2 := t[2].(int)
			if ok1 && ok2 {
				emitted[g] = append(emitted[g], c12Emitted{n, t[3]})
			}
		}
	}
	for _, o := range res.Observed.Subs {
		id := o["id"].(int)
		if o["overlap"].(bool) {
			oracle(true, "writer_exclusive", fmt.Sprintf("subscriber %d: two writer calls overlapped", id))
		}
		if ac, _ := o["afterClose"].([]string); len(ac) > 0 {
			oracle(true, "nothing_after_completed", fmt.Sprintf("subscriber %d: writer calls after its completion was signalled: %v", id, ac))
		}
		if ar, _ := o["afterReturn"].([]string); len(ar) > 0 {
			oracle(true, "nothing_after_completed", fmt.Sprintf("subscriber %d: writer calls after ResolveGraphQLSubscription returned: %v", id, ar))
		}
		if o["closed"].(int) > 1 {
			oracle(true, "completed_once", fmt.Sprintf("subscriber %d: completion signalled %d times", id, o["closed"].(int)))
		}
		// ordered, exact, filtered: event numbers of one generation strictly increase, every payload is this
		// subscriber's own rendering, every delivered event passes its filter, nothing follows a 'complete'
		last := map[int]int{}
		reportSince := map[int]bool{}
		olog, _ := o["log"].([]string)
		for _, c := range olog {
			if c == "errorReport" {
				for g := range last {
					reportSince[g] = true
				}
			}
			if strings.HasPrefix(c, "data?") {
				oracle(true, "exact_payload", fmt.Sprintf("subscriber %d: a message is not the response its own plan produces for an event: %s", id, c))
				continue
			}
			var g, n int
			if _, err := fmt.Sscanf(c, "data:%d:%d", &g, &n); err == nil {
				if n <= last[g] {
					oracle(true, "ordered_once", fmt.Sprintf("subscriber %d: event %d of trigger %d delivered after event %d: %v", id, n, g, last[g], olog))
				}
				// one message per event that passes the filter: between two events this subscriber did receive (so it was
				// registered and alive all the time) no passing event of its trigger may be missing, unless an error report
				// took its place (rendering into the writer failed)
				if p := last[g]; p > 0 && !reportSince[g] {
					op, hasOp := subOps[id]
					for _, e := range emitted[g] {
						if e.n <= p || e.n >= n {
							continue
						}
						if e.only != nil && fmt.Sprint(e.only) != fmt.Sprint(id) {
							continue
						}
						pass := !hasOp || op.Filter == nil
						for _, r := range op.Filter {
							pass = pass || r == e.n%5
						}
						if pass {
							oracle(true, "no_passing_event_skipped", fmt.Sprintf("subscriber %d (filter %v, string-typed %v) received events %d and %d of trigger %d but not event %d (tag %d), which passes its filter: %v",
								id, op.Filter, op.FilterStr, p, n, g, e.n, e.n%5, olog))
						}
					}
				}
				reportSince[g] = false
				last[g] = n
				if op, ok := subOps[id]; ok && op.Filter != nil {
					pass := false
					for _, r := range op.Filter {
						pass = pass || r == n%5
					}
					if !pass {
						oracle(true, "filter_respected", fmt.Sprintf("subscriber %d (filter %v) received event %d (tag %d)", id, op.Filter, n, n%5))
					}
				}
			}
		}
		// C13: after shutdown every accepted subscriber has been completed
		if res.Observed.Reg != nil && o["accepted"].(bool) && c12ShutdownIn(sc) && o["closed"].(int) == 0 {
			oracle(false, "all_completed", fmt.Sprintf("subscriber %d was never completed although the resolver shut down", id))
		}
	}
	if c12ShutdownIn(sc) && len(res.Observed.Problems) == 0 {
		reg := res.Observed.Reg
		if reg["triggers"] != 0 || reg["subscriptions"] != 0 || reg["connections"] != 0 || reg["subInc"] != reg["subDec"] || reg["trigInc"] != reg["trigDec"] {
			oracle(false, "quiescent_clean", fmt.Sprintf("after shutdown: %v", reg))
		}
		for k, o := range res.Observed.Gens {
			if c, ok := o["cancelled"].(bool); ok && !c {
				oracle(false, "all_cancelled", fmt.Sprintf("the context of trigger %d is still live after shutdown", k))
			}
		}
	}
	for _, p := range res.Observed.Problems {
		isC13 := strings.Contains(p, "Start of generation") || strings.Contains(p, "after shutdown")
		if strings.Contains(p, "closed twice") || strings.Contains(p, "while a writer call was in flight") || strings.Contains(p, "panicked") || isC13 {
			oracle(!isC13, "harness_observation", p)
		} else {
			viol(!isC13, "harness_observation", p)
		}
	}
	if len(res.Observed.Problems) > 0 {
		return
	}
	if !m.Accepted {
		at := -1
		if m.RejectedAt != nil {
			at = *m.RejectedAt
		}
		d := fmt.Sprintf("the observed action sequence is not a run of the model: rejected at trace index %d", at)
		if at >= 0 && at < len(res.Trace) {
			d += " " + jsonStr(res.Trace[at])
		}
		// a Start call the model has no generation for, or a missing one, is a sharing (C13) matter
		isC13 := at >= 0 && at < len(res.Trace) && (res.Trace[at][0] == "startCall" || res.Trace[at][0] == "startOk" || res.Trace[at][0] == "startFailAll")
		viol(!isC13, "trace_accepted", d)
		return
	}
	// C12: per-subscriber logs, completion
	for k, o := range res.Observed.Subs {
		if k >= len(m.Subs) {
			break
		}
		ms := m.Subs[k]
		if ms.Missing {
			continue
		}
		olog, _ := o["log"].([]string)
		if strings.Join(olog, ",") != strings.Join(ms.Log, ",") {
			viol(true, "delivery_log", fmt.Sprintf("subscriber %d: writer calls %v, model %v", ms.ID, olog, ms.Log))
		}
		if o["closed"].(int) != ms.Closed {
			// exactly-once completion is C12's; "every subscriber has been completed" is C13's
			viol(c12, "completed_once", fmt.Sprintf("subscriber %d: completed closed %d times, model %d", ms.ID, o["closed"].(int), ms.Closed))
		}
		if ret, ok := o["returned"].(bool); ok {
			if ret != (ms.Closed > 0) && generic["shutdown"] != true {
				viol(true, "sync_return", fmt.Sprintf("subscriber %d: ResolveGraphQLSubscription returned=%v but completion count in the model is %d", ms.ID, ret, ms.Closed))
			}
		}
	}
	// C13: generations, cancellation, registry, counters
	if len(res.Observed.Gens) != len(m.Gens) {
		viol(false, "sharing", fmt.Sprintf("%d triggers were created, the model has %d", len(res.Observed.Gens), len(m.Gens)))
	} else {
		for k, o := range res.Observed.Gens {
			mg := m.Gens[k]
			noStart := o["noStart"].(bool)
			if noStart != (mg.Started == 0) {
				viol(false, "started_once", fmt.Sprintf("generation %d: Start called=%v, model started=%d", k, !noStart, mg.Started))
			}
			if c, ok := o["cancelled"].(bool); ok && c != mg.Cancelled {
				viol(false, "cancel_iff_detached", fmt.Sprintf("generation %d: trigger context cancelled=%v, model %v", k, c, mg.Cancelled))
			}
		}
	}
	reg := res.Observed.Reg
	for _, kv := range [][2]string{{"triggers", "trigs"}, {"subscriptions", "byID"}, {"connections", "conns"}, {"subInc", "subInc"}, {"subDec", "subDec"}, {"trigInc", "trigInc"}, {"trigDec", "trigDec"}} {
		if reg[kv[0]] != num(kv[1]) {
			viol(false, "registry_and_counters", fmt.Sprintf("%s: implementation %d, model %d", kv[0], reg[kv[0]], num(kv[1])))
		}
	}
}

func c12ShutdownIn(sc *c12Scenario) bool {
	for _, op := range sc.Ops {
		if op.Kind == "shutdown" {
			return true
		}
	}
	return false
}

func c12SubIDs(res *c12Result) []int {
	out := []int{}
	for _, o := range res.Observed.Subs {
		out = append(out, o["id"].(int))
	}
	return out
}

// ---- generator ---------------------------------------------------------------------------------------

func c12Gen1(rng *rand.Rand) *c12Scenario {
	sc := &c12Scenario{}
	nSubs := 0
	type gm struct {
		released, done bool
		key            int
	}
	var gens []gm
	regKey := map[int]int{} // model key -> believed registered generation
	alive := map[int]int{}  // subscriber -> believed generation
	members := func(g int) int {
		n := 0
		for _, gg := range alive {
			if gg == g {
				n++
			}
		}
		return n
	}
	drop := func(i int) {
		g, ok := alive[i]
		if !ok {
			return
		}
		delete(alive, i)
		if members(g) == 0 {
			for k, v := range regKey {
				if v == g {
					delete(regKey, k)
				}
			}
		}
	}
	dropGen := func(g int) {
		for i, gg := range alive {
			if gg == g {
				delete(alive, i)
			}
		}
		for k, v := range regKey {
			if v == g {
				delete(regKey, k)
			}
		}
	}
	conns := map[int]int{}
	mkSub := func() c12Op {
		op := c12Op{Kind: "sub", I: nSubs, Key: rng.Intn(2), Conn: rng.Intn(3)}
		nSubs++
		if rng.Intn(4) == 0 {
			op.Hdr = 1
		}
		if rng.Intn(3) == 0 {
			op.Filter = []int{}
			for k := rng.Intn(4); k > 0; k-- {
				op.Filter = append(op.Filter, rng.Intn(5))
			}
			op.FilterStr = op.I%2 == 1 // no PRNG draw of its own: the scenarios of earlier runs keep their shape
		}
		if rng.Intn(10) == 0 {
			op.WriteFailAt = 1 + rng.Intn(2)
		}
		op.HB = rng.Intn(3) == 0
		op.Sync = rng.Intn(6) == 0
		if op.Sync {
			op.Conn = 1000 + op.I // the blocking API allocates its own connection id
		}
		if rng.Intn(8) == 0 {
			op.FlushFailAt = 1 + rng.Intn(2)
		}
		if op.HB && rng.Intn(4) == 0 {
			op.HBFail = true
		}
		if rng.Intn(9) == 0 {
			op.HookFail = true
		}
		mk := op.Key*4 + op.Hdr
		conns[op.I] = op.Conn
		if g, ok := regKey[mk]; ok {
			if !op.HookFail {
				alive[op.I] = g
			}
		} else {
			g := len(gens)
			gens = append(gens, gm{key: mk, released: op.HookFail})
			if !op.HookFail {
				regKey[mk] = g
				alive[op.I] = g
			}
		}
		return op
	}
	anySub := func() (int, bool) {
		if nSubs == 0 {
			return 0, false
		}
		if len(alive) > 0 && rng.Intn(5) != 0 {
			k := rng.Intn(len(alive))
			for i := 0; i < nSubs; i++ {
				if _, ok := alive[i]; ok {
					if k == 0 {
						return i, true
					}
					k--
				}
			}
		}
		return rng.Intn(nSubs), true
	}
	anyGen := func() (int, bool) {
		if len(gens) == 0 {
			return 0, false
		}
		return rng.Intn(len(gens)), true
	}
	var simple func(depth int) (c12Op, bool)
	simple = func(depth int) (c12Op, bool) {
		switch r := rng.Intn(100); {
		case r < 22:
			return mkSub(), true
		case r < 34:
			if i, ok := anySub(); ok {
				drop(i)
				return c12Op{Kind: "unsub", I: i}, true
			}
		case r < 38:
			c := rng.Intn(3)
			for i, cc := range conns {
				if cc == c {
					drop(i)
				}
			}
			return c12Op{Kind: "removeClient", Conn: c}, true
		case r < 62:
			if g, ok := anyGen(); ok {
				return c12Op{Kind: "event", G: g}, true
			}
		case r < 66:
			if g, ok := anyGen(); ok {
				if i, ok := anySub(); ok {
					return c12Op{Kind: "eventOne", G: g, I: i}, true
				}
			}
		case r < 71:
			if g, ok := anyGen(); ok {
				return c12Op{Kind: pick(rng, []string{"complete", "error"}), G: g}, true
			}
		case r < 77:
			if g, ok := anyGen(); ok {
				gens[g].done = true
				dropGen(g)
				return c12Op{Kind: "done", G: g}, true
			}
		case r < 82:
			if g, ok := anyGen(); ok {
				return c12Op{Kind: "heartbeat", G: g}, true
			}
		case r < 92:
			for g := range gens {
				if !gens[g].released && rng.Intn(2) == 0 {
					gens[g].released = true
					if rng.Intn(4) == 0 {
						dropGen(g)
						return c12Op{Kind: "startFail", G: g}, true
					}
					return c12Op{Kind: "startOk", G: g}, true
				}
			}
		case r < 95:
			if i, ok := anySub(); ok {
				return c12Op{Kind: "cancelCtx", I: i}, true
			}
		case r < 98:
			if g, ok := anyGen(); ok {
				if i, ok := anySub(); ok {
					return c12Op{Kind: "closeSub", G: g, I: i}, true
				}
			}
		}
		return c12Op{}, false
	}
	n := 5 + rng.Intn(14)
	for len(sc.Ops) < n {
		if rng.Intn(100) < 22 && len(gens) > 0 {
			// racing operation
			g := rng.Intn(len(gens))
			var op c12Op
			switch rng.Intn(7) {
			case 6:
				i, ok := anySub()
				if !ok {
					continue
				}
				op = c12Op{Kind: "raceWrite", G: g, I: i}
				drop(i)
				sc.Ops = append(sc.Ops, op)
				continue
			case 0, 1:
				op = c12Op{Kind: "raceEvent", G: g}
			case 2:
				op = c12Op{Kind: pick(rng, []string{"raceComplete", "raceError"}), G: g}
				if rng.Intn(2) == 0 {
					op.Then = append(op.Then, c12Op{Kind: "unsubVictim"})
				}
			case 3:
				if gens[g].released {
					continue
				}
				gens[g].released = true
				op = c12Op{Kind: "raceStart", G: g, Ok: rng.Intn(3) != 0}
			case 4:
				i, ok := anySub()
				if !ok {
					continue
				}
				op = c12Op{Kind: "raceUnsub", I: i}
				drop(i)
			case 5:
				op = c12Op{Kind: "raceDone", G: g}
				gens[g].done = true
				dropGen(g)
			}
			for k := rng.Intn(4); k > 0; k-- {
				if t, ok := simple(1); ok {
					op.Then = append(op.Then, t)
				}
			}
			if op.Kind == "raceStart" && !op.Ok {
				dropGen(g)
			}
			sc.Ops = append(sc.Ops, op)
			continue
		}
		if op, ok := simple(0); ok {
			sc.Ops = append(sc.Ops, op)
		}
	}
	if rng.Intn(3) != 0 {
		sc.Ops = append(sc.Ops, c12Op{Kind: "shutdown"})
		if rng.Intn(3) == 0 {
			sc.Ops = append(sc.Ops, mkSub())
		}
	}
	return sc
}

// ---- entry -------------------------------------------------------------------------------------------

func runC12(run *Run, replay string) Spec {
	spec := Spec{
		Level: "proof",
		Rule: "histories of subscribe (async and blocking API, shared and distinct inputs/headers, filters, heartbeats, failing flushes, failing start-up hooks), upstream events, Complete/Error/Done, Start success/failure, unsubscribe, client removal, context cancellation and resolver shutdown against the real Resolver with a fake data source; " +
			"racing pairs are produced by holding a goroutine at a verif yield point (update between snapshot and write, Complete/Error before a subscriber's call, trigger start before initialisation, unsubscribe/Done between registry removal and close/cancel) while other operations run; " +
			"each history's action sequence must be a run of the Lean transition system and the model's observable state must equal the implementation's (writer call logs with exact payloads, completion counts, Start calls, cancelled contexts, registry sizes, reporter sums). non-trivial = history with a racing pair or at least one delivered event; distinct = distinct scenarios",
		TrustedBase: []string{"Lean 4 kernel", "axioms: propext, Classical.choice, Quot.sound only (audited)",
			"Lean LTS GqlVerif.Proto.Subs (one action per lock region; unbounded subscribers, keys, generations)",
			"verif hooks in /repo (yield points, registry sizes; build tag verif) and this harness' fake data source, recording writers and reporter",
			"Go mutex / atomic / channel semantics: each modelled action is one critical section of Resolver.mu, trigger.mu, subscriptionState.writeMu or subscriptionUpdater.mu"},
		Assumptions: []string{"trigger ids (xxhash of input and header hash) are collision free", "a subscriber's writer calls are atomic in the model; their mutual exclusion in the implementation is observed by the recording writer (overlap detector), not proved",
			"interleavings are sampled at yield-point granularity; the theorems cover all interleavings of the model"},
	}
	resolve.VerifSetYieldHook(c12Hook)
	defer resolve.VerifSetYieldHook(nil)
	curPath := filepath.Join(run.VerifDir, ".run", fmt.Sprintf("current-%s-0.json", run.Prop))
	exec := func(sc *c12Scenario) {
		_ = os.WriteFile(curPath, []byte(jsonStr(map[string]any{"scenario": sc})), 0o644)
		t0 := time.Now()
		_, res := c12RunScenario(sc)
		if d := time.Since(t0); d > 2*time.Second {
			run.Feat("slow_scenario")
			if os.Getenv("VERIF_DEBUG") != "" {
				fmt.Fprintf(os.Stderr, "slow scenario (%.1fs): %s\n", d.Seconds(), jsonStr(sc))
			}
		}
		// A mismatch between the model's prediction and the observed trace counts only if the scenario reproduces it: the
		// scenario ops are asynchronous in places (context cancellation, hook goroutines) and under load the implementation
		// may legitimately take an order the model's trace did not. The model-independent oracles (overlap, writes after
		// close, registry sizes, …) are not retried: whatever they see happened.
		scratch := &Run{Prop: run.Prop, Tier: run.Tier, Seed: run.Seed, VerifDir: run.VerifDir, Pool: run.Pool, Known: run.Known,
			distinct: map[string]struct{}{}, Hist: map[string]int{}, KnownHits: map[string]int{}, KnownPrinted: map[string]bool{}, Extra: map[string]any{}}
		c12Judge(scratch, sc, res)
		onlyCorrespondence := len(scratch.Violations) > 0
		for _, v := range scratch.Violations {
			if v.Kind != "correspondence" {
				onlyCorrespondence = false
			}
		}
		if onlyCorrespondence {
			reproduced := 0
			for attempt := 0; attempt < 2; attempt++ {
				_, res2 := c12RunScenario(sc)
				again := &Run{Prop: run.Prop, Tier: run.Tier, Seed: run.Seed, VerifDir: run.VerifDir, Pool: run.Pool, Known: run.Known,
					distinct: map[string]struct{}{}, Hist: map[string]int{}, KnownHits: map[string]int{}, KnownPrinted: map[string]bool{}, Extra: map[string]any{}}
				c12Judge(again, sc, res2)
				if len(again.Violations) > 0 {
					reproduced++
				}
			}
			if reproduced == 0 {
				run.Feat("correspondence_mismatch_not_reproduced")
				scratch.Violations = nil
			}
		}
		for _, v := range scratch.Violations {
			run.Violate(v, "")
		}
		run.mu.Lock()
		for k, n := range scratch.KnownHits {
			run.KnownHits[k] += n
		}
		for k, n := range scratch.Hist {
			run.Hist[k] += n
		}
		run.mu.Unlock()
		races, delivered := 0, 0
		for _, op := range sc.Ops {
			if strings.HasPrefix(op.Kind, "race") {
				races++
				run.Feat("race:" + op.Kind)
			}
			run.Feat("op:" + op.Kind)
		}
		for _, o := range res.Observed.Subs {
			if l, _ := o["log"].([]string); len(l) > 0 {
				delivered += len(l)
			}
		}
		key := ""
		if races > 0 || delivered > 0 {
			key = jsonStr(sc)
		}
		run.Count(key)
		run.TracesVsImpl++
		if run.Evaluations <= 3 {
			run.Sample(map[string]any{"scenario": sc, "trace": res.Trace})
		}
	}
	if replay != "" {
		b, err := os.ReadFile(replay)
		if err == nil {
			var f struct {
				Violation struct {
					Input struct {
						Scenario c12Scenario `json:"scenario"`
					} `json:"input"`
				} `json:"violation"`
				Scenarios []struct {
					Scenario c12Scenario `json:"scenario"`
				} `json:"scenarios_in_flight"`
			}
			var raw struct {
				Violation struct {
					Input json.RawMessage `json:"input"`
				} `json:"violation"`
			}
			if json.Unmarshal(b, &raw) == nil && c12FilterReplay(run, raw.Violation.Input) {
				_ = os.Remove(curPath)
				return spec
			}
			if json.Unmarshal(b, &f) == nil {
				if len(f.Violation.Input.Scenario.Ops) > 0 {
					exec(&f.Violation.Input.Scenario)
				}
				for _, s := range f.Scenarios {
					sc := s.Scenario
					exec(&sc)
				}
			}
		}
		_ = os.Remove(curPath)
		return spec
	}
	if run.Prop == "C13" {
		c13KeyStream(run, map[bool]int{true: 20000, false: 2000}[run.Tier == "thorough"])
	}
	// corpus first
	for _, sc := range c12Corpus() {
		exec(sc)
	}
	// the filter decision itself (c12f.go)
	if run.Prop == "C12" {
		nf := 4000
		if run.Tier == "thorough" {
			nf = 200000
		}
		for k := 0; k < nf && run.NViolations() < 5; k++ {
			c12FilterCheck(run, subRng(run.Seed, 2_000_000_000+k))
		}
	}
	n := 3000
	if run.Tier == "thorough" {
		n = 60000
	}
	// after a disagreement between model and implementation the search goes on for a while: a history on which a
	// model-independent oracle fails is the better replay
	for k := 0; k < n && (run.NViolations() < 5 || (run.NOracleViolations() == 0 && run.NViolations() < 40)); k++ {
		rng := subRng(run.Seed, k)
		if k%12 == 11 {
			exec(c12GenBurst(rng))
			continue
		}
		exec(c12Gen1(rng))
	}
	_ = os.Remove(curPath)
	return spec
}

// a quiet history with many events: 2-4 subscribers with filters of 1-4 values (numbers or strings) on one trigger, a burst of
// 8-14 events, Complete.  Nothing races, so every event that passes a filter must arrive, in order (the exactness half of C12).
func c12GenBurst(rng *rand.Rand) *c12Scenario {
	sc := &c12Scenario{}
	ns := 2 + rng.Intn(3)
	for i := 0; i < ns; i++ {
		op := c12Op{Kind: "sub", I: i, Conn: i % 3}
		if i > 0 || rng.Intn(2) == 0 {
			op.Filter = []int{}
			for k := 1 + rng.Intn(4); k > 0; k-- {
				op.Filter = append(op.Filter, rng.Intn(5))
			}
			op.FilterStr = rng.Intn(2) == 0
		}
		sc.Ops = append(sc.Ops, op)
		if i == 0 {
			sc.Ops = append(sc.Ops, c12Op{Kind: "startOk", G: 0})
		}
	}
	for k := 8 + rng.Intn(7); k > 0; k-- {
		sc.Ops = append(sc.Ops, c12Op{Kind: "event", G: 0})
	}
	sc.Ops = append(sc.Ops, c12Op{Kind: "complete", G: 0}, c12Op{Kind: "done", G: 0}, c12Op{Kind: "shutdown"})
	return sc
}

// minimised past failures and the racing pairs named in the property
func c12Corpus() []*c12Scenario {
	return []*c12Scenario{
		// source Complete vs client unsubscribe
		{Ops: []c12Op{{Kind: "sub", I: 0}, {Kind: "sub", I: 1, Conn: 1}, {Kind: "startOk", G: 0}, {Kind: "event", G: 0},
			{Kind: "raceComplete", G: 0, Then: []c12Op{{Kind: "unsubVictim"}}}, {Kind: "done", G: 0}, {Kind: "shutdown"}}},
		// update in flight vs removal
		{Ops: []c12Op{{Kind: "sub", I: 0}, {Kind: "sub", I: 1, Conn: 1}, {Kind: "startOk", G: 0},
			{Kind: "raceEvent", G: 0, Then: []c12Op{{Kind: "unsub", I: 0}}}, {Kind: "event", G: 0}, {Kind: "shutdown"}}},
		// removal while the trigger is starting up
		{Ops: []c12Op{{Kind: "sub", I: 0}, {Kind: "raceStart", G: 0, Ok: true, Then: []c12Op{{Kind: "unsub", I: 0}}}, {Kind: "shutdown"}}},
		// same input subscribed again while the old trigger is being torn down; the old source is still talking
		{Ops: []c12Op{{Kind: "sub", I: 0}, {Kind: "startOk", G: 0},
			{Kind: "raceUnsub", I: 0, Then: []c12Op{{Kind: "sub", I: 1, Conn: 1}, {Kind: "event", G: 0}, {Kind: "complete", G: 0}, {Kind: "done", G: 0}}},
			{Kind: "startOk", G: 1}, {Kind: "event", G: 1}, {Kind: "shutdown"}}},
		{Ops: []c12Op{{Kind: "sub", I: 0}, {Kind: "startOk", G: 0},
			{Kind: "raceDone", G: 0, Then: []c12Op{{Kind: "sub", I: 1, Conn: 1}}},
			{Kind: "startOk", G: 1}, {Kind: "event", G: 1}, {Kind: "done", G: 0}, {Kind: "event", G: 1}, {Kind: "shutdown"}}},
		// different headers never share
		{Ops: []c12Op{{Kind: "sub", I: 0}, {Kind: "sub", I: 1, Hdr: 1, Conn: 1}, {Kind: "startOk", G: 0}, {Kind: "startOk", G: 1},
			{Kind: "event", G: 0}, {Kind: "event", G: 1}, {Kind: "shutdown"}}},
		// failing flush removes only that subscriber
		{Ops: []c12Op{{Kind: "sub", I: 0, FlushFailAt: 1}, {Kind: "sub", I: 1, Conn: 1}, {Kind: "startOk", G: 0}, {Kind: "event", G: 0}, {Kind: "event", G: 0}, {Kind: "shutdown"}}},
		// start failure
		{Ops: []c12Op{{Kind: "sub", I: 0}, {Kind: "sub", I: 1, Conn: 1}, {Kind: "startFail", G: 0}, {Kind: "sub", I: 2}, {Kind: "startOk", G: 1}, {Kind: "event", G: 1}}},
	}
}
