package main

// Shared end-to-end infrastructure for the federation properties (C01, C07, C09, C10, C14 …): layouts (a supergraph
// SDL and federated subgraph SDLs), derivation of the planner configuration and of the Lean schema descriptions from
// the SDLs, data universes, conversion of operations to the JSON AST the Lean reference executor reads, and semantic
// subgraphs: an http.RoundTripper that answers every subgraph request with what the Lean executor
// (GqlVerif.Gql.Exec) says the subgraph's schema and the universe mean.

import (
	"bytes"
	"context"
	"encoding/json"
	"fmt"
	"io"
	"net/http"
	"sort"
	"strings"
	"sync"

	"github.com/jensneuse/abstractlogger"

	"github.com/wundergraph/graphql-go-tools/execution/engine"
	"github.com/wundergraph/graphql-go-tools/execution/graphql"
	"github.com/wundergraph/graphql-go-tools/v2/pkg/ast"
	"github.com/wundergraph/graphql-go-tools/v2/pkg/astparser"
	"github.com/wundergraph/graphql-go-tools/v2/pkg/engine/datasource/graphql_datasource"
	"github.com/wundergraph/graphql-go-tools/v2/pkg/engine/plan"
	"github.com/wundergraph/graphql-go-tools/v2/pkg/engine/resolve"
)

// ---- SDL analysis ------------------------------------------------------------------------------------------------

type fedField struct {
	Name        string            `json:"name"`
	Type        map[string]any    `json:"type"`
	ArgDefaults map[string]any    `json:"argDefaults,omitempty"`
	External    bool              `json:"-"`
	Requires    string            `json:"-"`
	Provides    string            `json:"-"`
	ArgNames    []string          `json:"-"`
	ArgTypes    map[string]string `json:"-"`
	TypeSDL     string            `json:"-"`
}

type fedType struct {
	Name     string      `json:"name"`
	Kind     string      `json:"kind"`
	Fields   []*fedField `json:"fields"`
	Possible []string    `json:"possible,omitempty"`
	Keys     []string    `json:"keys,omitempty"`
	KeySets  []string    `json:"-"` // the @key selection sets as written
	Ifaces   []string    `json:"-"`
	Values   []string    `json:"-"` // enum values
}

type fedSchema struct {
	Types    []*fedType `json:"types"`
	Query    string     `json:"query"`
	Mutation string     `json:"mutation"`
	IsSub    bool       `json:"isSubgraph"`
}

func (s *fedSchema) typ(name string) *fedType {
	for _, t := range s.Types {
		if t.Name == name {
			return t
		}
	}
	return nil
}

func fedTypeJSON(doc *ast.Document, ref int) map[string]any {
	t := doc.Types[ref]
	switch t.TypeKind {
	case ast.TypeKindNonNull:
		return map[string]any{"k": "nonnull", "of": fedTypeJSON(doc, t.OfType)}
	case ast.TypeKindList:
		return map[string]any{"k": "list", "of": fedTypeJSON(doc, t.OfType)}
	}
	return map[string]any{"k": "named", "n": doc.TypeNameString(ref)}
}

func fedTypeSDL(t map[string]any) string {
	switch t["k"] {
	case "nonnull":
		return fedTypeSDL(t["of"].(map[string]any)) + "!"
	case "list":
		return "[" + fedTypeSDL(t["of"].(map[string]any)) + "]"
	}
	return t["n"].(string)
}

func fedNamed(t map[string]any) string {
	for t["k"] != "named" {
		t = t["of"].(map[string]any)
	}
	return t["n"].(string)
}

func fedDirectiveArg(doc *ast.Document, dirRefs []int, name, arg string) (string, bool) {
	for _, d := range dirRefs {
		if doc.DirectiveNameString(d) != name {
			continue
		}
		if arg == "" {
			return "", true
		}
		if v, ok := doc.DirectiveArgumentValueByName(d, []byte(arg)); ok && v.Kind == ast.ValueKindString {
			return doc.StringValueContentString(v.Ref), true
		}
		return "", true
	}
	return "", false
}

func fedAllDirectiveArgs(doc *ast.Document, dirRefs []int, name, arg string) []string {
	var out []string
	for _, d := range dirRefs {
		if doc.DirectiveNameString(d) == name {
			if v, ok := doc.DirectiveArgumentValueByName(d, []byte(arg)); ok && v.Kind == ast.ValueKindString {
				out = append(out, doc.StringValueContentString(v.Ref))
			}
		}
	}
	return out
}

func fedFieldsOf(doc *ast.Document, refs []int) []*fedField {
	var out []*fedField
	for _, fr := range refs {
		f := &fedField{Name: doc.FieldDefinitionNameString(fr), Type: fedTypeJSON(doc, doc.FieldDefinitionType(fr)), ArgTypes: map[string]string{}}
		f.TypeSDL = fedTypeSDL(f.Type)
		dirs := doc.FieldDefinitionDirectives(fr)
		_, f.External = fedDirectiveArg(doc, dirs, "external", "")
		f.Requires, _ = fedDirectiveArg(doc, dirs, "requires", "fields")
		f.Provides, _ = fedDirectiveArg(doc, dirs, "provides", "fields")
		for _, ar := range doc.FieldDefinitionArgumentsDefinitions(fr) {
			an := doc.InputValueDefinitionNameString(ar)
			f.ArgNames = append(f.ArgNames, an)
			f.ArgTypes[an] = fedTypeSDL(fedTypeJSON(doc, doc.InputValueDefinitionType(ar)))
			if doc.InputValueDefinitionHasDefaultValue(ar) {
				if b, err := doc.ValueToJSON(doc.InputValueDefinitionDefaultValue(ar)); err == nil {
					var v any
					if json.Unmarshal(b, &v) == nil {
						if f.ArgDefaults == nil {
							f.ArgDefaults = map[string]any{}
						}
						f.ArgDefaults[an] = v
					}
				}
			}
		}
		out = append(out, f)
	}
	return out
}

// fedAnalyze reads an SDL (supergraph or federated subgraph) into the structured description
func fedAnalyze(sdl string) (*fedSchema, error) {
	doc, rep := astparser.ParseGraphqlDocumentString(sdl)
	if rep.HasErrors() {
		return nil, fmt.Errorf("%s", rep.Error())
	}
	s := &fedSchema{Query: "Query", Mutation: "Mutation"}
	keyFields := func(sets []string) []string {
		seen := map[string]bool{}
		var out []string
		for _, set := range sets {
			for _, f := range strings.Fields(strings.NewReplacer("{", " ", "}", " ").Replace(set)) {
				if !seen[f] {
					seen[f] = true
					out = append(out, f)
				}
			}
		}
		return out
	}
	for _, n := range doc.RootNodes {
		switch n.Kind {
		case ast.NodeKindObjectTypeDefinition:
			d := doc.ObjectTypeDefinitions[n.Ref]
			t := &fedType{Name: doc.ObjectTypeDefinitionNameString(n.Ref), Kind: "OBJECT", Fields: fedFieldsOf(&doc, d.FieldsDefinition.Refs)}
			for _, ir := range d.ImplementsInterfaces.Refs {
				t.Ifaces = append(t.Ifaces, doc.TypeNameString(ir))
			}
			t.KeySets = fedAllDirectiveArgs(&doc, d.Directives.Refs, "key", "fields")
			t.Keys = keyFields(t.KeySets)
			s.Types = append(s.Types, t)
		case ast.NodeKindInterfaceTypeDefinition:
			d := doc.InterfaceTypeDefinitions[n.Ref]
			t := &fedType{Name: doc.InterfaceTypeDefinitionNameString(n.Ref), Kind: "INTERFACE", Fields: fedFieldsOf(&doc, d.FieldsDefinition.Refs)}
			t.KeySets = fedAllDirectiveArgs(&doc, d.Directives.Refs, "key", "fields")
			s.Types = append(s.Types, t)
		case ast.NodeKindUnionTypeDefinition:
			d := doc.UnionTypeDefinitions[n.Ref]
			t := &fedType{Name: doc.UnionTypeDefinitionNameString(n.Ref), Kind: "UNION"}
			for _, mr := range d.UnionMemberTypes.Refs {
				t.Possible = append(t.Possible, doc.TypeNameString(mr))
			}
			s.Types = append(s.Types, t)
		case ast.NodeKindEnumTypeDefinition:
			d := doc.EnumTypeDefinitions[n.Ref]
			t := &fedType{Name: doc.EnumTypeDefinitionNameString(n.Ref), Kind: "ENUM"}
			for _, vr := range d.EnumValuesDefinition.Refs {
				t.Values = append(t.Values, doc.EnumValueDefinitionNameString(vr))
			}
			s.Types = append(s.Types, t)
		case ast.NodeKindScalarTypeDefinition:
			s.Types = append(s.Types, &fedType{Name: doc.ScalarTypeDefinitionNameString(n.Ref), Kind: "SCALAR"})
		case ast.NodeKindInputObjectTypeDefinition:
			s.Types = append(s.Types, &fedType{Name: doc.InputObjectTypeDefinitionNameString(n.Ref), Kind: "INPUT_OBJECT"})
		}
	}
	for _, t := range s.Types {
		if t.Kind == "INTERFACE" {
			for _, o := range s.Types {
				if o.Kind == "OBJECT" && containsStr(o.Ifaces, t.Name) {
					t.Possible = append(t.Possible, o.Name)
				}
			}
		}
	}
	return s, nil
}

// planner metadata of a federated subgraph, derived from its SDL
func fedMetadata(s *fedSchema) *plan.DataSourceMetadata {
	m := &plan.DataSourceMetadata{}
	for _, t := range s.Types {
		if t.Kind != "OBJECT" && t.Kind != "INTERFACE" {
			continue
		}
		tf := plan.TypeField{TypeName: t.Name}
		for _, f := range t.Fields {
			if f.External {
				tf.ExternalFieldNames = append(tf.ExternalFieldNames, f.Name)
			} else {
				tf.FieldNames = append(tf.FieldNames, f.Name)
			}
			if f.Requires != "" {
				m.FederationMetaData.Requires = append(m.FederationMetaData.Requires, plan.FederationFieldConfiguration{TypeName: t.Name, FieldName: f.Name, SelectionSet: f.Requires})
			}
			if f.Provides != "" {
				m.FederationMetaData.Provides = append(m.FederationMetaData.Provides, plan.FederationFieldConfiguration{TypeName: t.Name, FieldName: f.Name, SelectionSet: f.Provides})
			}
		}
		isRoot := t.Name == s.Query || t.Name == s.Mutation || t.Name == "Subscription" || len(t.KeySets) > 0
		if isRoot {
			m.RootNodes = append(m.RootNodes, tf)
		} else {
			m.ChildNodes = append(m.ChildNodes, tf)
		}
		for _, k := range t.KeySets {
			m.FederationMetaData.Keys = append(m.FederationMetaData.Keys, plan.FederationFieldConfiguration{TypeName: t.Name, SelectionSet: k})
		}
	}
	return m
}

// the schema description the Lean executor uses for a subgraph: plus the federation entry point
func fedSubgraphLeanSchema(s *fedSchema) *fedSchema {
	out := &fedSchema{Query: s.Query, Mutation: s.Mutation, IsSub: true}
	var entities []string
	hasQuery := false
	for _, t := range s.Types {
		c := *t
		if len(t.KeySets) > 0 && t.Kind == "OBJECT" {
			entities = append(entities, t.Name)
		}
		if t.Name == s.Query {
			hasQuery = true
			c.Fields = append(append([]*fedField{}, t.Fields...), fedEntitiesField())
		}
		out.Types = append(out.Types, &c)
	}
	if !hasQuery {
		out.Types = append(out.Types, &fedType{Name: s.Query, Kind: "OBJECT", Fields: []*fedField{fedEntitiesField()}})
	}
	out.Types = append(out.Types, &fedType{Name: "_Entity", Kind: "UNION", Possible: entities})
	return out
}

func fedEntitiesField() *fedField {
	return &fedField{Name: "_entities", Type: map[string]any{"k": "nonnull", "of": map[string]any{"k": "list", "of": map[string]any{"k": "named", "n": "_Entity"}}}}
}

// ---- operations → JSON AST -------------------------------------------------------------------------------------------

func fedValueJSON(doc *ast.Document, v ast.Value) map[string]any {
	switch v.Kind {
	case ast.ValueKindVariable:
		return map[string]any{"var": doc.VariableValueNameString(v.Ref)}
	case ast.ValueKindList:
		items := []any{}
		for _, r := range doc.ListValues[v.Ref].Refs {
			items = append(items, fedValueJSON(doc, doc.Values[r]))
		}
		return map[string]any{"list": items}
	case ast.ValueKindObject:
		fs := []any{}
		for _, r := range doc.ObjectValues[v.Ref].Refs {
			fs = append(fs, []any{doc.ObjectFieldNameString(r), fedValueJSON(doc, doc.ObjectFieldValue(r))})
		}
		return map[string]any{"obj": fs}
	}
	b, err := doc.ValueToJSON(v)
	var lit any
	if err == nil {
		_ = json.Unmarshal(b, &lit)
	}
	_ = lit
	return map[string]any{"lit": json.RawMessage(b)}
}

func fedDirsJSON(doc *ast.Document, refs []int) []any {
	out := []any{}
	for _, d := range refs {
		name := doc.DirectiveNameString(d)
		if name != "skip" && name != "include" {
			continue
		}
		if v, ok := doc.DirectiveArgumentValueByName(d, []byte("if")); ok {
			out = append(out, map[string]any{"name": name, "if": fedValueJSON(doc, v)})
		}
	}
	return out
}

func fedSelsJSON(doc *ast.Document, set int) []any {
	out := []any{}
	if set < 0 {
		return out
	}
	for _, sr := range doc.SelectionSets[set].SelectionRefs {
		sel := doc.Selections[sr]
		switch sel.Kind {
		case ast.SelectionKindField:
			f := sel.Ref
			m := map[string]any{"t": "field", "name": doc.FieldNameString(f), "alias": "", "dirs": fedDirsJSON(doc, doc.Fields[f].Directives.Refs)}
			if doc.FieldAliasIsDefined(f) {
				m["alias"] = doc.FieldAliasString(f)
			}
			args := []any{}
			for _, ar := range doc.Fields[f].Arguments.Refs {
				args = append(args, []any{doc.ArgumentNameString(ar), fedValueJSON(doc, doc.Arguments[ar].Value)})
			}
			m["args"] = args
			if doc.Fields[f].HasSelections {
				m["sels"] = fedSelsJSON(doc, doc.Fields[f].SelectionSet)
			} else {
				m["sels"] = []any{}
			}
			out = append(out, m)
		case ast.SelectionKindInlineFragment:
			fr := sel.Ref
			m := map[string]any{"t": "inline", "cond": nil, "dirs": fedDirsJSON(doc, doc.InlineFragments[fr].Directives.Refs)}
			if doc.InlineFragmentHasTypeCondition(fr) {
				m["cond"] = doc.InlineFragmentTypeConditionNameString(fr)
			}
			m["sels"] = fedSelsJSON(doc, doc.InlineFragments[fr].SelectionSet)
			out = append(out, m)
		case ast.SelectionKindFragmentSpread:
			out = append(out, map[string]any{"t": "spread", "name": doc.FragmentSpreadNameString(sel.Ref), "dirs": fedDirsJSON(doc, doc.FragmentSpreads[sel.Ref].Directives.Refs)})
		}
	}
	return out
}

// fedOpJSON parses an operation text into the JSON AST of the Lean executor
func fedOpJSON(text string, operationName string) (map[string]any, error) {
	doc, rep := astparser.ParseGraphqlDocumentString(text)
	if rep.HasErrors() {
		return nil, fmt.Errorf("%s", rep.Error())
	}
	op := map[string]any{"kind": "query", "sels": []any{}, "frags": []any{}, "varDefaults": map[string]any{}}
	found := false
	for _, n := range doc.RootNodes {
		switch n.Kind {
		case ast.NodeKindOperationDefinition:
			od := doc.OperationDefinitions[n.Ref]
			if found || (operationName != "" && doc.OperationDefinitionNameString(n.Ref) != operationName) {
				continue
			}
			found = true
			switch od.OperationType {
			case ast.OperationTypeMutation:
				op["kind"] = "mutation"
			case ast.OperationTypeSubscription:
				op["kind"] = "subscription"
			}
			if od.HasSelections {
				op["sels"] = fedSelsJSON(&doc, od.SelectionSet)
			}
			defs := map[string]any{}
			if od.HasVariableDefinitions {
				for _, vr := range od.VariableDefinitions.Refs {
					if doc.VariableDefinitions[vr].DefaultValue.IsDefined {
						if b, err := doc.ValueToJSON(doc.VariableDefinitionDefaultValue(vr)); err == nil {
							defs[doc.VariableDefinitionNameString(vr)] = json.RawMessage(b)
						}
					}
				}
			}
			op["varDefaults"] = defs
		case ast.NodeKindFragmentDefinition:
			fd := doc.FragmentDefinitions[n.Ref]
			op["frags"] = append(op["frags"].([]any), map[string]any{"name": doc.FragmentDefinitionNameString(n.Ref), "typeCond": doc.FragmentDefinitionTypeNameString(n.Ref),
				"sels": fedSelsJSON(&doc, fd.SelectionSet)})
		}
	}
	if !found {
		return nil, fmt.Errorf("no operation")
	}
	return op, nil
}

// ---- universes ------------------------------------------------------------------------------------------------------

type fedNode struct {
	Type   string         `json:"type"`
	Fields map[string]any `json:"fields"`
}

type fedUniverse struct {
	Nodes []*fedNode `json:"nodes"`
}

func fvS(v any) map[string]any         { return map[string]any{"s": v} }
func fvR(i int) map[string]any         { return map[string]any{"r": i} }
func fvL(xs ...any) map[string]any     { return map[string]any{"l": append([]any{}, xs...)} }
func fvN() map[string]any              { return map[string]any{"n": true} }
func fvE(msg string) map[string]any    { return map[string]any{"e": msg} }
func fvC(src ...string) map[string]any { return map[string]any{"c": src} }

func (u *fedUniverse) add(typ string, fields map[string]any) int {
	u.Nodes = append(u.Nodes, &fedNode{Type: typ, Fields: fields})
	return len(u.Nodes) - 1
}

// ---- layouts and engines -----------------------------------------------------------------------------------------------

type fedSubgraph struct {
	Name   string
	SDL    string
	schema *fedSchema
	lean   *fedSchema
	meta   *plan.DataSourceMetadata
}

type fedLayout struct {
	Name   string
	Super  string
	Subs   []*fedSubgraph
	super  *fedSchema
	Fields plan.FieldConfigurations
}

func (l *fedLayout) prepare() error {
	var err error
	if l.super, err = fedAnalyze(l.Super); err != nil {
		return fmt.Errorf("supergraph: %w", err)
	}
	for _, sg := range l.Subs {
		if sg.schema, err = fedAnalyze(sg.SDL); err != nil {
			return fmt.Errorf("subgraph %s: %w", sg.Name, err)
		}
		sg.lean = fedSubgraphLeanSchema(sg.schema)
		sg.meta = fedMetadata(sg.schema)
	}
	// argument configuration of the supergraph's fields
	for _, t := range l.super.Types {
		for _, f := range t.Fields {
			if len(f.ArgNames) == 0 {
				continue
			}
			fc := plan.FieldConfiguration{TypeName: t.Name, FieldName: f.Name}
			for _, a := range f.ArgNames {
				fc.Arguments = append(fc.Arguments, plan.ArgumentConfiguration{Name: a, SourceType: plan.FieldArgumentSource})
			}
			l.Fields = append(l.Fields, fc)
		}
	}
	return nil
}

// what a subgraph was asked and what it answered
type fedExchange struct {
	Subgraph  string          `json:"subgraph"`
	Query     string          `json:"query"`
	Variables json.RawMessage `json:"variables"`
	Response  string          `json:"response"`
	Status    int             `json:"status"`
	Seq       int             `json:"seq"`
}

// fault injection: decide per request what happens instead of the semantic answer
type fedFault struct {
	Kind string // transport | status500 | empty | nonjson | errorsOnly | wrongCount
}

type fedSession struct {
	layout   *fedLayout
	universe *fedUniverse
	pool     *DriverPool
	mu       sync.Mutex
	log      []fedExchange
	seq      int
	// fault(sub, query, variables, seq) may return a fault for this request
	fault func(sub string, query string, vars []byte, seq int) *fedFault
	// gate is called before answering (used to order deferred fetches)
	gate     func(sub string, query string, vars []byte)
	problems []string
	// header(sub) gives extra response headers of a subgraph (Cache-Control for C16)
	header func(sub string) http.Header
	// rewrite(sub, query, variables, response) may replace a well-formed answer (content-based, so that the same request
	// gets the same answer every time)
	rewrite func(sub string, query string, vars []byte, resp string) string
}

type fedTransport struct {
	sub *fedSubgraph
	cur func() *fedSession
}

// a session can also travel with the request context (concurrent requests on one engine)
type fedSessKey struct{}

func (t *fedTransport) RoundTrip(req *http.Request) (*http.Response, error) {
	body, _ := io.ReadAll(req.Body)
	sess := t.cur()
	if s, ok := req.Context().Value(fedSessKey{}).(*fedSession); ok && s != nil {
		sess = s
	}
	if sess == nil {
		return nil, fmt.Errorf("no session")
	}
	var in struct {
		Query         string          `json:"query"`
		Variables     json.RawMessage `json:"variables"`
		OperationName string          `json:"operationName"`
	}
	if err := json.Unmarshal(body, &in); err != nil {
		sess.problem("subgraph %s received a body that is not JSON: %q", t.sub.Name, body)
		return fedHTTP(400, `{"errors":[{"message":"bad request"}]}`), nil
	}
	sess.mu.Lock()
	seq := sess.seq
	sess.seq++
	sess.mu.Unlock()
	if sess.gate != nil {
		sess.gate(t.sub.Name, in.Query, in.Variables)
	}
	status, resp := 200, ""
	var fault *fedFault
	if sess.fault != nil {
		fault = sess.fault(t.sub.Name, in.Query, in.Variables, seq)
	}
	if fault != nil && fault.Kind == "transport" {
		sess.record(fedExchange{Subgraph: t.sub.Name, Query: in.Query, Variables: in.Variables, Response: "<transport error>", Status: 0, Seq: seq})
		return nil, fmt.Errorf("connection refused")
	}
	resp = sess.answer(t.sub, in.Query, in.Variables, in.OperationName)
	if fault != nil {
		switch fault.Kind {
		case "status500":
			status, resp = 500, `{"errors":[{"message":"internal"}]}`
		case "empty":
			resp = ""
		case "nonjson":
			resp = "<html>bad gateway</html>"
		case "errorsOnly":
			resp = `{"errors":[{"message":"subgraph failed"}]}`
		case "status503DataNull":
			status, resp = 503, `{"data":null}`
		case "errorsWithLocation":
			// servers report unknown positions as -1 (graphql-java) or 0
			resp = `{"errors":[{"message":"subgraph failed","locations":[{"line":-1,"column":-1}],"path":["_entities",0]}],"data":null}`
		case "wrongCount":
			resp = strings.Replace(resp, `"_entities":[`, `"_entities":[null,`, 1)
		}
	}
	if sess.rewrite != nil && fault == nil {
		resp = sess.rewrite(t.sub.Name, in.Query, in.Variables, resp)
	}
	sess.record(fedExchange{Subgraph: t.sub.Name, Query: in.Query, Variables: in.Variables, Response: resp, Status: status, Seq: seq})
	out := fedHTTP(status, resp)
	if sess.header != nil {
		for k, vs := range sess.header(t.sub.Name) {
			for _, v := range vs {
				out.Header.Add(k, v)
			}
		}
	}
	return out, nil
}

func fedHTTP(status int, body string) *http.Response {
	return &http.Response{StatusCode: status, Header: http.Header{"Content-Type": []string{"application/json"}}, Body: io.NopCloser(bytes.NewBufferString(body))}
}

func (s *fedSession) problem(f string, a ...any) {
	s.mu.Lock()
	s.problems = append(s.problems, fmt.Sprintf(f, a...))
	s.mu.Unlock()
}

func (s *fedSession) record(e fedExchange) {
	s.mu.Lock()
	s.log = append(s.log, e)
	s.mu.Unlock()
}

// answer: the meaning of the request in the subgraph's schema over the universe, computed by the Lean executor
func (s *fedSession) answer(sub *fedSubgraph, query string, vars json.RawMessage, opName string) string {
	op, err := fedOpJSON(query, opName)
	if err != nil {
		s.problem("subgraph %s received an operation that does not parse: %v: %s", sub.Name, err, query)
		return `{"errors":[{"message":"syntax error"}]}`
	}
	if len(vars) == 0 {
		vars = json.RawMessage(`{}`)
	}
	raw, err := s.pool.Ask("fed.exec", map[string]any{"schema": sub.lean, "universe": s.universe, "op": op, "vars": vars})
	if err != nil {
		s.problem("driver: %v", err)
		return `{"errors":[{"message":"driver"}]}`
	}
	var r struct {
		Data   json.RawMessage `json:"data"`
		Errors []string        `json:"errors"`
	}
	_ = json.Unmarshal(raw, &r)
	if len(r.Errors) == 0 {
		return `{"data":` + string(r.Data) + `}`
	}
	errs := []string{}
	for _, e := range r.Errors {
		errs = append(errs, fmt.Sprintf(`{"message":%q}`, e))
	}
	return `{"errors":[` + strings.Join(errs, ",") + `],"data":` + string(r.Data) + `}`
}

type fedEngineOpts struct {
	DisableDedup bool
	MultiFetch   bool
	Schedule     bool
	Minify       bool
	customize    func(conf *engine.Configuration)
	resolverOpts func(o *resolve.ResolverOptions)
	// subClient(engine) replaces the WebSocket / SSE subscription client of every subgraph (scripted event sources)
	subClient func(fe *fedEngine) graphql_datasource.GraphQLSubscriptionClient
}

type fedEngine struct {
	layout *fedLayout
	eng    *engine.ExecutionEngine
	cancel context.CancelFunc
	mu     sync.Mutex
	sess   *fedSession
}

func (e *fedEngine) current() *fedSession {
	e.mu.Lock()
	defer e.mu.Unlock()
	return e.sess
}

func fedNewEngine(l *fedLayout, opts fedEngineOpts) (*fedEngine, error) {
	fe := &fedEngine{layout: l}
	schema, err := graphql.NewSchemaFromString(l.Super)
	if err != nil {
		return nil, fmt.Errorf("supergraph schema: %w", err)
	}
	conf := engine.NewConfiguration(schema)
	var dss []plan.DataSource
	for _, sg := range l.Subs {
		client := &http.Client{Transport: &fedTransport{sub: sg, cur: fe.current}}
		var subClient graphql_datasource.GraphQLSubscriptionClient = graphql_datasource.NewGraphQLSubscriptionClient(context.Background(),
			graphql_datasource.WithUpgradeClient(client), graphql_datasource.WithStreamingClient(client))
		if opts.subClient != nil {
			subClient = opts.subClient(fe)
		}
		factory, err := graphql_datasource.NewFactory(context.Background(), client, subClient)
		if err != nil {
			return nil, err
		}
		schemaCfg, err := graphql_datasource.NewSchemaConfiguration(sg.SDL, &graphql_datasource.FederationConfiguration{Enabled: true, ServiceSDL: sg.SDL})
		if err != nil {
			return nil, fmt.Errorf("subgraph %s schema configuration: %w", sg.Name, err)
		}
		cfg, err := graphql_datasource.NewConfiguration(graphql_datasource.ConfigurationInput{
			Fetch:               &graphql_datasource.FetchConfiguration{URL: "https://" + sg.Name + "/", Method: "POST"},
			Subscription:        &graphql_datasource.SubscriptionConfiguration{URL: "wss://" + sg.Name + "/"},
			SchemaConfiguration: schemaCfg,
		})
		if err != nil {
			return nil, err
		}
		ds, err := plan.NewDataSourceConfiguration[graphql_datasource.Configuration](sg.Name, factory, fedMetadata(sg.schema), cfg) // fresh metadata per engine: the planner caches parsed selection sets in it
		if err != nil {
			return nil, fmt.Errorf("subgraph %s data source: %w", sg.Name, err)
		}
		dss = append(dss, ds)
	}
	conf.SetDataSources(dss)
	conf.SetFieldConfigurations(l.Fields)
	if opts.customize != nil {
		opts.customize(&conf)
	}
	ctx, cancel := context.WithCancel(context.Background())
	fe.cancel = cancel
	ro := resolve.ResolverOptions{MaxConcurrency: 32, PropagateSubgraphErrors: true}
	if opts.resolverOpts != nil {
		opts.resolverOpts(&ro)
	}
	eng, err := engine.NewExecutionEngine(ctx, abstractlogger.Noop{}, conf, ro)
	if err != nil {
		cancel()
		return nil, err
	}
	fe.eng = eng
	return fe, nil
}

type fedResponse struct {
	Raw    string
	Data   any
	Errors []any
	Err    error
	Log    []fedExchange
	Probs  []string
}

// run executes one operation in a fresh session (one engine serves one request at a time here)
func (e *fedEngine) run(sess *fedSession, query, opName string, vars []byte, options ...engine.ExecutionOptions) *fedResponse {
	e.mu.Lock()
	e.sess = sess
	e.mu.Unlock()
	req := graphql.Request{Query: query, OperationName: opName}
	if len(vars) > 0 {
		req.Variables = vars
	}
	w := graphql.NewEngineResultWriter()
	err := e.eng.Execute(context.Background(), &req, &w, options...)
	out := &fedResponse{Raw: w.String(), Err: err}
	var parsed struct {
		Data   any   `json:"data"`
		Errors []any `json:"errors"`
	}
	dec := json.NewDecoder(strings.NewReader(out.Raw))
	dec.UseNumber()
	_ = dec.Decode(&parsed)
	out.Data, out.Errors = parsed.Data, parsed.Errors
	sess.mu.Lock()
	out.Log = append([]fedExchange{}, sess.log...)
	out.Probs = append([]string{}, sess.problems...)
	sess.mu.Unlock()
	sort.Slice(out.Log, func(i, j int) bool { return out.Log[i].Seq < out.Log[j].Seq })
	return out
}

// runCtx executes one operation with the session attached to the request context: several may run at once
func (e *fedEngine) runCtx(sess *fedSession, query, opName string, vars []byte, options ...engine.ExecutionOptions) *fedResponse {
	req := graphql.Request{Query: query, OperationName: opName}
	if len(vars) > 0 {
		req.Variables = vars
	}
	w := graphql.NewEngineResultWriter()
	err := e.eng.Execute(context.WithValue(context.Background(), fedSessKey{}, sess), &req, &w, options...)
	out := &fedResponse{Raw: w.String(), Err: err}
	var parsed struct {
		Data   any   `json:"data"`
		Errors []any `json:"errors"`
	}
	dec := json.NewDecoder(strings.NewReader(out.Raw))
	dec.UseNumber()
	_ = dec.Decode(&parsed)
	out.Data, out.Errors = parsed.Data, parsed.Errors
	sess.mu.Lock()
	out.Log = append([]fedExchange{}, sess.log...)
	out.Probs = append([]string{}, sess.problems...)
	sess.mu.Unlock()
	return out
}

// reference: what a single server owning all the data returns
func fedReference(pool *DriverPool, l *fedLayout, u *fedUniverse, query, opName string, vars []byte) (data any, errs []string, err error) {
	op, err := fedOpJSON(query, opName)
	if err != nil {
		return nil, nil, err
	}
	if len(vars) == 0 {
		vars = []byte(`{}`)
	}
	raw, err := pool.Ask("fed.exec", map[string]any{"schema": l.super, "universe": u, "op": op, "vars": json.RawMessage(vars)})
	if err != nil {
		return nil, nil, err
	}
	var r struct {
		Data   json.RawMessage `json:"data"`
		Errors []string        `json:"errors"`
	}
	_ = json.Unmarshal(raw, &r)
	dec := json.NewDecoder(bytes.NewReader(r.Data))
	dec.UseNumber()
	_ = dec.Decode(&data)
	return data, r.Errors, nil
}

func fedJSONEqual(a, b any) bool {
	ja, _ := json.Marshal(a)
	jb, _ := json.Marshal(b)
	return string(ja) == string(jb)
}
