package main

import (
	"bufio"
	"bytes"
	"encoding/hex"
	"encoding/json"
	"fmt"
	"io"
	"math/rand"
	"os"
	"os/exec"
	"path/filepath"
	"reflect"
	"sort"
	"strings"
	"sync"
	"time"
)

// ---------------------------------------------------------------------------------------------
// Lean driver client (line protocol, one JSON object per line)

type Driver struct {
	cmd *exec.Cmd
	in  io.WriteCloser
	out *bufio.Reader
	mu  sync.Mutex
	n   int
}

func StartDriver(path string) (*Driver, error) {
	cmd := exec.Command(path)
	in, err := cmd.StdinPipe()
	if err != nil {
		return nil, err
	}
	out, err := cmd.StdoutPipe()
	if err != nil {
		return nil, err
	}
	cmd.Stderr = os.Stderr
	if err := cmd.Start(); err != nil {
		return nil, err
	}
	return &Driver{cmd: cmd, in: in, out: bufio.NewReaderSize(out, 1<<20)}, nil
}

type driverResp struct {
	ID          int             `json:"id"`
	Out         json.RawMessage `json:"out"`
	Unsupported string          `json:"unsupported"`
	Error       string          `json:"error"`
}

// Ask sends one request and waits for the answer.
func (d *Driver) Ask(op string, args any) (json.RawMessage, error) {
	d.mu.Lock()
	defer d.mu.Unlock()
	d.n++
	req, err := json.Marshal(map[string]any{"id": d.n, "op": op, "args": args})
	if err != nil {
		return nil, err
	}
	if _, err := d.in.Write(append(req, '\n')); err != nil {
		return nil, fmt.Errorf("driver write: %w", err)
	}
	// a model that does not answer within ten minutes is stopped, so that a check fails loudly instead of hanging
	watchdog := time.AfterFunc(10*time.Minute, func() { d.cmd.Process.Kill() })
	line, err := d.out.ReadBytes('\n')
	if !watchdog.Stop() && err != nil {
		return nil, fmt.Errorf("driver gave no answer within ten minutes and was stopped (request %s)", truncate(string(req), 300))
	}
	if err != nil {
		return nil, fmt.Errorf("driver read: %w (request %s)", err, truncate(string(req), 300))
	}
	var r driverResp
	if err := json.Unmarshal(line, &r); err != nil {
		return nil, fmt.Errorf("driver answer not JSON: %q", truncate(string(line), 300))
	}
	if r.Error != "" {
		return nil, fmt.Errorf("driver error %s on %s", r.Error, truncate(string(req), 300))
	}
	if r.Unsupported != "" {
		return nil, fmt.Errorf("driver: unsupported op %s", r.Unsupported)
	}
	return r.Out, nil
}

func (d *Driver) Close() {
	d.in.Close()
	d.cmd.Wait()
}

// DriverPool runs several driver processes so the model side uses all cores.
type DriverPool struct {
	ch chan *Driver
	n  int
}

func NewDriverPool(path string, n int) (*DriverPool, error) {
	p := &DriverPool{ch: make(chan *Driver, n), n: n}
	for i := 0; i < n; i++ {
		d, err := StartDriver(path)
		if err != nil {
			return nil, err
		}
		p.ch <- d
	}
	return p, nil
}

func (p *DriverPool) Ask(op string, args any) (json.RawMessage, error) {
	d := <-p.ch
	defer func() { p.ch <- d }()
	return d.Ask(op, args)
}

func (p *DriverPool) Close() {
	for i := 0; i < p.n; i++ {
		d := <-p.ch
		d.Close()
	}
}

// ---------------------------------------------------------------------------------------------
// Run bookkeeping: evidence, violations, known findings

type Violation struct {
	Kind    string `json:"kind"`   // "oracle" | "correspondence" | "theorem"
	Clause  string `json:"clause"` // which oracle clause / correspondence channel / theorem
	Input   any    `json:"input"`
	Impl    any    `json:"impl,omitempty"`
	Model   any    `json:"model,omitempty"`
	Detail  string `json:"detail,omitempty"`
	CaseKey string `json:"-"`
}

type KnownFinding struct {
	ID       string          `json:"id"`
	Property string          `json:"property"`
	Status   string          `json:"status"` // "open" | "fixed: <commit>"
	What     string          `json:"what"`
	Guard    string          `json:"guard"`   // name of the narrow class guard implemented in the harness
	Witness  json.RawMessage `json:"witness"` // exact failing input
	CallSite string          `json:"call_site"`
}

type Run struct {
	Prop     string
	Tier     string
	Seed     int64
	Rng      *rand.Rand
	Pool     *DriverPool
	Start    time.Time
	VerifDir string

	mu            sync.Mutex
	Evaluations   int
	distinct      map[string]struct{}
	Hist          map[string]int
	Samples       []any
	autoSamples   []string
	Violations    []Violation
	KnownHits     map[string]int // finding id -> hits
	KnownPrinted  map[string]bool
	Known         []KnownFinding
	Unsupported   int
	Extra         map[string]any
	TracesVsImpl  int
	BrokenTheorem []string
}

func NewRun(prop, tier string, seed int64, verifDir string) *Run {
	r := &Run{Prop: prop, Tier: tier, Seed: seed, Rng: rand.New(rand.NewSource(seed)), Start: time.Now(),
		VerifDir: verifDir, distinct: map[string]struct{}{}, Hist: map[string]int{}, KnownHits: map[string]int{},
		KnownPrinted: map[string]bool{}, Extra: map[string]any{}}
	r.loadKnown()
	return r
}

func (r *Run) loadKnown() {
	b, err := os.ReadFile(filepath.Join(r.VerifDir, "known_findings.json"))
	if err != nil {
		return
	}
	var all struct {
		Findings []KnownFinding `json:"findings"`
	}
	if err := json.Unmarshal(b, &all); err != nil {
		fmt.Fprintf(os.Stderr, "known_findings.json unreadable: %v\n", err)
		return
	}
	for _, f := range all.Findings {
		if f.Property == r.Prop {
			r.Known = append(r.Known, f)
		}
	}
}

// OpenFinding returns the open known finding with this id, if listed.
func (r *Run) OpenFinding(id string) *KnownFinding {
	for i := range r.Known {
		if r.Known[i].ID == id && r.Known[i].Status == "open" {
			return &r.Known[i]
		}
	}
	return nil
}

// Count records one evaluation; key identifies distinct non-trivial cases ("" = trivial).
func (r *Run) Count(key string, feats ...string) {
	r.mu.Lock()
	defer r.mu.Unlock()
	r.Evaluations++
	if key != "" {
		if len(r.distinct) < 2_000_000 {
			r.distinct[key] = struct{}{}
		}
		// the first distinct cases, written out: the samples of a property whose harness records none of its own
		if len(r.autoSamples) < 3 && len(key) > 8 && key != "replay" {
			dup := false
			for _, a := range r.autoSamples {
				dup = dup || a == truncate(key, 1800)
			}
			if !dup {
				r.autoSamples = append(r.autoSamples, truncate(key, 1800))
			}
		}
	}
	for _, f := range feats {
		r.Hist[f]++
	}
}

func (r *Run) Feat(feats ...string) {
	r.mu.Lock()
	defer r.mu.Unlock()
	for _, f := range feats {
		r.Hist[f]++
	}
}

func (r *Run) Sample(s any) {
	r.mu.Lock()
	defer r.mu.Unlock()
	if len(r.Samples) < 6 {
		r.Samples = append(r.Samples, s)
	}
}

// Violate records a violation; if it is an instance of an open known finding (id != ""), it is
// attributed to it instead.
func (r *Run) Violate(v Violation, knownID string) {
	r.mu.Lock()
	defer r.mu.Unlock()
	if knownID != "" {
		for _, k := range r.Known {
			if k.ID == knownID && k.Status == "open" {
				r.KnownHits[knownID]++
				return
			}
		}
	}
	if len(r.Violations) < 50 {
		r.Violations = append(r.Violations, v)
	}
}

// violations that carry a concrete failing input (not only a model / implementation disagreement)
func (r *Run) NOracleViolations() int {
	r.mu.Lock()
	defer r.mu.Unlock()
	n := 0
	for _, v := range r.Violations {
		if v.Kind == "oracle" {
			n++
		}
	}
	return n
}

func (r *Run) NViolations() int {
	r.mu.Lock()
	defer r.mu.Unlock()
	return len(r.Violations)
}

type AuditInfo struct {
	Module      string   `json:"module"`
	Obligations int      `json:"obligations"`
	Discharged  int      `json:"discharged"`
	Theorems    []string `json:"theorems"`
	Axioms      []string `json:"axioms"`
	BadAxioms   []string `json:"bad_axioms"`
	Broken      []string `json:"broken"`    // theorems / generated tie obligations that no longer check
	BuildLog    string   `json:"build_log"` // excerpt when broken
	CheckerCmd  string   `json:"checker_cmd"`
	LeanChecker string   `json:"leanchecker"`
	Facts       []string `json:"facts"` // regenerated-facts tie theorems
}

type Spec struct {
	Level       string // evidence "level"
	Rule        string
	TrustedBase []string
	Assumptions []string
}

// Finish writes evidence and replays, prints KNOWN-FINDING / VIOLATION lines and returns the exit code.
func (r *Run) Finish(spec Spec, audit *AuditInfo) int {
	r.mu.Lock()
	defer r.mu.Unlock()
	exit := 0
	// known findings
	ids := make([]string, 0, len(r.KnownHits))
	for id := range r.KnownHits {
		ids = append(ids, id)
	}
	sort.Strings(ids)
	knownOut := []map[string]any{}
	for _, k := range r.Known {
		if k.Status != "open" {
			continue
		}
		hits := r.KnownHits[k.ID]
		knownOut = append(knownOut, map[string]any{"id": k.ID, "hits": hits, "what": k.What})
		if hits > 0 {
			fmt.Printf("KNOWN-FINDING: property=%s %s: %s (hits this run: %d)\n", r.Prop, k.ID, k.What, hits)
		}
	}
	// broken theorems without a failing input
	replayDir := filepath.Join(r.VerifDir, "replays")
	os.MkdirAll(replayDir, 0o755)
	concrete := 0
	for _, v := range r.Violations {
		if v.Kind == "oracle" {
			concrete++
		}
	}
	printed := 0
	for i, v := range r.Violations {
		path := filepath.Join(replayDir, fmt.Sprintf("%s-%s-%d-%d.json", r.Prop, r.Tier, r.Seed, i))
		b, _ := json.MarshalIndent(map[string]any{"property": r.Prop, "tier": r.Tier, "seed": r.Seed, "violation": v,
			"broken_obligations": brokenOf(audit)}, "", " ")
		os.WriteFile(path, b, 0o644)
		exit = 1
		// with a concrete failing input in hand, only those are reported; a broken correspondence or
		// theorem without one is reported with the no-failing-input-found suffix
		if concrete > 0 && v.Kind != "oracle" {
			continue
		}
		if printed < 5 {
			suffix := ""
			if v.Kind != "oracle" {
				suffix = " no-failing-input-found"
			}
			fmt.Printf("VIOLATION property=%s replay=%s%s\n", r.Prop, path, suffix)
			printed++
		}
	}
	if audit != nil && len(audit.Broken)+len(audit.BadAxioms) > 0 {
		path := filepath.Join(replayDir, fmt.Sprintf("%s-%s-%d-theorem.json", r.Prop, r.Tier, r.Seed))
		b, _ := json.MarshalIndent(map[string]any{"property": r.Prop, "tier": r.Tier, "seed": r.Seed,
			"broken_obligations": audit.Broken, "bad_axioms": audit.BadAxioms, "build_log": audit.BuildLog,
			"note": "a Lean theorem or regenerated-fact tie no longer checks against the current source"}, "", " ")
		os.WriteFile(path, b, 0o644)
		if printed == 0 {
			fmt.Printf("VIOLATION property=%s replay=%s no-failing-input-found\n", r.Prop, path)
		}
		exit = 1
	}
	// evidence
	cov := map[string]any{
		"evaluations":         r.Evaluations,
		"distinct_nontrivial": len(r.distinct),
		"rule":                spec.Rule,
		"samples":             r.Samples,
		"histogram":           r.Hist,
		"known_findings":      knownOut,
		"trusted_base":        spec.TrustedBase,
	}
	if r.TracesVsImpl > 0 {
		cov["traces_validated_against_impl"] = r.TracesVsImpl
	}
	if audit != nil {
		cov["obligations"] = audit.Obligations
		cov["discharged"] = audit.Discharged
		cov["checker_cmd"] = audit.CheckerCmd
		cov["theorems"] = audit.Theorems
		cov["axioms_used"] = audit.Axioms
		cov["regenerated_fact_ties"] = audit.Facts
		if audit.LeanChecker != "" {
			cov["leanchecker"] = audit.LeanChecker
		}
		if len(audit.Broken) > 0 {
			cov["broken_obligations"] = audit.Broken
		}
	}
	for k, v := range r.Extra {
		cov[k] = v
	}
	if len(r.Samples) == 0 {
		var ss []any
		for _, a := range r.autoSamples {
			ss = append(ss, map[string]any{"case": a})
		}
		if len(ss) == 0 {
			ss = []any{"(no case generated)"}
		}
		cov["samples"] = ss
	}
	if spec.Level == "translation_validation" {
		// programs = distinct (operation / document / history, data) cases translated by the implementation and judged against the
		// reference; disagreements_checked = comparisons of an implementation output with the reference output performed
		cov["programs"] = len(r.distinct)
		cov["disagreements_checked"] = r.TracesVsImpl
	}
	ev := map[string]any{
		"property_id": r.Prop,
		"tier":        r.Tier,
		"seed":        r.Seed,
		"level":       spec.Level,
		"coverage":    cov,
		"assumptions": spec.Assumptions,
		"wall_s":      time.Since(r.Start).Seconds(),
		"violations":  len(r.Violations),
	}
	os.MkdirAll(filepath.Join(r.VerifDir, "evidence"), 0o755)
	b, _ := json.MarshalIndent(ev, "", " ")
	os.WriteFile(filepath.Join(r.VerifDir, "evidence", r.Prop+".json"), b, 0o644)
	fmt.Printf("%s %s seed=%d: evaluations=%d distinct_nontrivial=%d violations=%d known_hits=%v wall=%.1fs\n",
		r.Prop, r.Tier, r.Seed, r.Evaluations, len(r.distinct), len(r.Violations), r.KnownHits, time.Since(r.Start).Seconds())
	return exit
}

// ---------------------------------------------------------------------------------------------
// helpers

func truncate(s string, n int) string {
	if len(s) <= n {
		return s
	}
	return s[:n] + "…"
}

func hx(b []byte) string { return hex.EncodeToString(b) }

// canon re-marshals any JSON-able value into a canonical generic form (maps sorted by encoding/json).
func canon(v any) any {
	b, err := json.Marshal(v)
	if err != nil {
		return fmt.Sprintf("<marshal error %v>", err)
	}
	var out any
	dec := json.NewDecoder(bytes.NewReader(b))
	dec.UseNumber()
	if err := dec.Decode(&out); err != nil {
		return fmt.Sprintf("<decode error %v>", err)
	}
	return out
}

func decodeRaw(raw json.RawMessage) any {
	var out any
	dec := json.NewDecoder(bytes.NewReader(raw))
	dec.UseNumber()
	if err := dec.Decode(&out); err != nil {
		return fmt.Sprintf("<decode error %v: %s>", err, truncate(string(raw), 200))
	}
	return out
}

// sameJSON compares an implementation-side value with the driver's raw answer structurally.
func sameJSON(impl any, model json.RawMessage) bool {
	return reflect.DeepEqual(canon(impl), decodeRaw(model))
}

func jsonStr(v any) string {
	b, _ := json.Marshal(v)
	return string(b)
}

// parallelFor runs f(i) for i in [0,n) on w workers.
func parallelFor(n, w int, f func(i int)) {
	if w < 1 {
		w = 1
	}
	var wg sync.WaitGroup
	ch := make(chan int, 1024)
	for k := 0; k < w; k++ {
		wg.Add(1)
		go func() {
			defer wg.Done()
			for i := range ch {
				f(i)
			}
		}()
	}
	for i := 0; i < n; i++ {
		ch <- i
	}
	close(ch)
	wg.Wait()
}

// subRng derives an independent deterministic PRNG for case i from the run seed.
func subRng(seed int64, i int) *rand.Rand {
	return rand.New(rand.NewSource(seed*1_000_003 + int64(i)*7919 + 17))
}

func pick[T any](r *rand.Rand, xs []T) T { return xs[r.Intn(len(xs))] }

func readAudit(path string) *AuditInfo {
	if path == "" {
		return nil
	}
	b, err := os.ReadFile(path)
	if err != nil {
		return nil
	}
	var a AuditInfo
	if json.Unmarshal(b, &a) != nil {
		return nil
	}
	return &a
}

func containsStr(xs []string, s string) bool {
	for _, x := range xs {
		if x == s {
			return true
		}
	}
	return false
}

var _ = strings.Contains

func unhex(s string) []byte {
	b, _ := hex.DecodeString(s)
	return b
}

func brokenOf(a *AuditInfo) []string {
	if a == nil {
		return nil
	}
	return a.Broken
}

// shrinkBytes: greedy delta-debugging on byte spans; pred(x) = "x still fails the same way".
func shrinkBytes(src []byte, pred func([]byte) bool) []byte {
	cur := append([]byte{}, src...)
	budget := 4000
	for size := len(cur) / 2; size >= 1; {
		changed := false
		for i := 0; i+size <= len(cur) && budget > 0; {
			cand := append(append([]byte{}, cur[:i]...), cur[i+size:]...)
			budget--
			if pred(cand) {
				cur = cand
				changed = true
			} else {
				i += size
			}
		}
		if !changed || size > len(cur) {
			size /= 2
		}
		if budget <= 0 {
			break
		}
	}
	return cur
}

// SetCurrent records the case a worker is executing, so that a crash of the process names its inputs (see ../check)
func (r *Run) SetCurrent(worker int, c any) {
	p := filepath.Join(r.VerifDir, ".run", fmt.Sprintf("current-%s-%d.json", r.Prop, worker))
	_ = os.WriteFile(p, []byte(jsonStr(map[string]any{"case": c})), 0o644)
}
