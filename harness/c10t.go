package main

// C10, the defer tree of the resolver: Resolvable.isDeferAncestor (through the build-tag hook
// resolve.VerifIsDeferAncestor) on generated defer trees.
//   oracle (model independent): in a random delivery order that delivers a nested group after its enclosing group,
//     while group g is rendered every defer id f the function admits (isDeferAncestor(f, parent g)) has been
//     delivered before g — the renderer never seeks into the fields of a group whose data is not there yet;
//   correspondence: the answer is the Lean model's (Proto.DeferTree.anc, Props.C10.renderer_seeks_only_into_delivered_groups).

import (
	"encoding/json"
	"fmt"
	"math/rand"

	"github.com/wundergraph/graphql-go-tools/v2/pkg/engine/resolve"
)

type c10TreeCase struct {
	Stream  string   `json:"stream"`
	Parents [][2]int `json:"parents"` // (defer id, id of the enclosing defer or 0); enclosing defers carry smaller ids
	Order   []int    `json:"delivery_order"`
}

func c10GenTree(r *rand.Rand) c10TreeCase {
	n := 1 + r.Intn(8)
	c := c10TreeCase{Stream: "defer_tree"}
	parent := map[int]int{}
	for i := 1; i <= n; i++ {
		p := 0
		if i > 1 && r.Intn(4) != 0 {
			p = 1 + r.Intn(i-1)
		}
		parent[i] = p
		c.Parents = append(c.Parents, [2]int{i, p})
	}
	delivered := map[int]bool{}
	for len(c.Order) < n {
		var ready []int
		for i := 1; i <= n; i++ {
			if !delivered[i] && (parent[i] == 0 || delivered[parent[i]]) {
				ready = append(ready, i)
			}
		}
		g := ready[r.Intn(len(ready))]
		delivered[g] = true
		c.Order = append(c.Order, g)
	}
	return c
}

func c10CheckTree(run *Run, c c10TreeCase) {
	desc := map[int]resolve.DeferDescriptor{}
	parent := map[int]int{}
	for _, p := range c.Parents {
		desc[p[0]] = resolve.DeferDescriptor{ID: p[0], ParentID: p[1]}
		parent[p[0]] = p[1]
	}
	run.Count(jsonStr(c), "defer_tree", fmt.Sprintf("groups=%d", len(c.Parents)))
	delivered := map[int]bool{}
	for _, g := range c.Order {
		for _, p := range c.Parents {
			f := p[0]
			if resolve.VerifIsDeferAncestor(desc, f, parent[g]) && !delivered[f] {
				run.Violate(Violation{Kind: "oracle", Clause: "renderer_seeks_only_into_delivered_groups", Input: c,
					Detail: fmt.Sprintf("while group %d (enclosed by %d) is rendered, isDeferAncestor admits the fields of group %d, which has not been delivered yet (delivered so far: %v)", g, parent[g], f, keysOf(delivered))}, "")
				return
			}
		}
		delivered[g] = true
	}
	// the model's answer for every pair
	for _, pf := range c.Parents {
		for p := 0; p <= len(c.Parents); p++ {
			f := pf[0]
			impl := resolve.VerifIsDeferAncestor(desc, f, p)
			m, err := run.Pool.Ask("c10.anc", map[string]any{"parents": c.Parents, "f": f, "p": p})
			if err != nil {
				run.Violate(Violation{Kind: "correspondence", Clause: "driver", Input: c, Detail: err.Error()}, "")
				return
			}
			var mr struct {
				Anc bool `json:"anc"`
			}
			json.Unmarshal(m, &mr)
			run.Feat("defer_tree_pairs_vs_model")
			if mr.Anc != impl {
				run.Violate(Violation{Kind: "correspondence", Clause: "c10.anc: isDeferAncestor differs from the model", Input: c,
					Impl: map[string]any{"fieldDeferID": f, "parentID": p, "answer": impl}, Model: decodeRaw(m)}, "")
				return
			}
		}
	}
}
