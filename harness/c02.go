package main

import (
	"bytes"
	"context"
	"encoding/json"
	"fmt"
	"math/rand"
	"os"
	"reflect"
	"strings"

	"github.com/wundergraph/graphql-go-tools/v2/pkg/ast"
	"github.com/wundergraph/graphql-go-tools/v2/pkg/engine/resolve"
)

func init() { props["C02"] = runC02 }

// ---- tree description shared by the Go builder, the oracle and the JSON sent to the driver -------------

type c02Field struct {
	Name     string   `json:"name"`
	On       []string `json:"on"`       // nil = no condition
	ParentOn [][2]any `json:"parentOn"` // nil = no condition; [depth, [names]]
	Value    *c02Node `json:"value"`
}

type c02Node struct {
	K                 string      `json:"k"` // object | array | scalar | enum | null | static | emptyObject | emptyArray
	Path              []string    `json:"path,omitempty"`
	Nullable          bool        `json:"nullable,omitempty"`
	Kind              string      `json:"kind,omitempty"` // scalar kind
	TypeName          string      `json:"typeName,omitempty"`
	Source            string      `json:"source,omitempty"`
	Possible          []string    `json:"possible,omitempty"`
	InaccessibleTypes []string    `json:"inaccessibleTypes,omitempty"`
	Unresolvable      bool        `json:"unresolvable,omitempty"`
	Fields            []*c02Field `json:"fields,omitempty"`
	Item              *c02Node    `json:"item,omitempty"`
	Values            []string    `json:"values,omitempty"`
	Inaccessible      []string    `json:"inaccessible,omitempty"`
	S                 string      `json:"s,omitempty"`
	IsTypeName        bool        `json:"isTypeName,omitempty"` // String node that renders __typename
}

func toSet(xs []string) map[string]struct{} {
	if len(xs) == 0 {
		return nil
	}
	m := map[string]struct{}{}
	for _, x := range xs {
		m[x] = struct{}{}
	}
	return m
}

func (n *c02Node) build() resolve.Node {
	switch n.K {
	case "object":
		o := &resolve.Object{Nullable: n.Nullable, Path: n.Path, TypeName: n.TypeName, SourceName: n.Source,
			PossibleTypes: toSet(n.Possible), InaccessibleTypes: toSet(n.InaccessibleTypes), Unresolvable: n.Unresolvable}
		for _, f := range n.Fields {
			rf := &resolve.Field{Name: []byte(f.Name), Value: f.Value.build()}
			if f.On != nil {
				rf.OnTypeNames = [][]byte{}
				for _, t := range f.On {
					rf.OnTypeNames = append(rf.OnTypeNames, []byte(t))
				}
			}
			if f.ParentOn != nil {
				rf.ParentOnTypeNames = []resolve.ParentOnTypeNames{}
				for _, p := range f.ParentOn {
					pn := resolve.ParentOnTypeNames{Depth: p[0].(int)}
					for _, t := range p[1].([]string) {
						pn.Names = append(pn.Names, []byte(t))
					}
					rf.ParentOnTypeNames = append(rf.ParentOnTypeNames, pn)
				}
			}
			o.Fields = append(o.Fields, rf)
		}
		return o
	case "array":
		return &resolve.Array{Path: n.Path, Nullable: n.Nullable, Item: n.Item.build()}
	case "scalar":
		switch n.Kind {
		case "string":
			return &resolve.String{Path: n.Path, Nullable: n.Nullable, IsTypeName: n.IsTypeName}
		case "boolean":
			return &resolve.Boolean{Path: n.Path, Nullable: n.Nullable}
		case "int":
			return &resolve.Integer{Path: n.Path, Nullable: n.Nullable}
		case "float":
			return &resolve.Float{Path: n.Path, Nullable: n.Nullable}
		case "bigInt":
			return &resolve.BigInt{Path: n.Path, Nullable: n.Nullable}
		default:
			return &resolve.Scalar{Path: n.Path, Nullable: n.Nullable}
		}
	case "enum":
		return &resolve.Enum{Path: n.Path, Nullable: n.Nullable, TypeName: n.TypeName, Values: n.Values, InaccessibleValues: n.Inaccessible}
	case "static":
		return &resolve.StaticString{Value: n.S}
	case "emptyObject":
		return &resolve.EmptyObject{}
	case "emptyArray":
		return &resolve.EmptyArray{}
	}
	return &resolve.Null{}
}

// ---- generators ------------------------------------------------------------------------------------

var c02TypeNames = []string{"User", "Admin", "Bot", "Guest"}

type c02Gen struct {
	r     *rand.Rand
	feats map[string]bool
}

func (g *c02Gen) node(depth, od int, path []string) *c02Node {
	r := g.r
	k := r.Intn(12)
	if depth >= 4 && k >= 6 {
		k = r.Intn(6)
	}
	nullable := r.Intn(2) == 0
	switch {
	case k < 5:
		return &c02Node{K: "scalar", Kind: pick(r, []string{"string", "boolean", "int", "float", "bigInt", "custom", "string", "int"}), Path: path, Nullable: nullable}
	case k == 5:
		n := &c02Node{K: "enum", Path: path, Nullable: nullable, TypeName: "Color", Values: []string{"RED", "GREEN", "BLUE"}}
		if r.Intn(3) == 0 {
			n.Inaccessible = []string{"BLUE"}
		}
		return n
	case k < 9:
		return g.object(depth, od, path, nullable)
	case k < 11:
		g.feats["list"] = true
		// list items are planned with an empty path
		item := g.node(depth+1, od, nil)
		if item.K == "array" {
			g.feats["list_of_list"] = true
		}
		return &c02Node{K: "array", Path: path, Nullable: nullable, Item: item}
	default:
		return pick(r, []*c02Node{{K: "null"}, {K: "static", S: "static-value"}, {K: "emptyObject"}, {K: "emptyArray"}})
	}
}

// od = number of enclosing objects (the typename stack below this object)
func (g *c02Gen) object(depth, od int, path []string, nullable bool) *c02Node {
	r := g.r
	o := &c02Node{K: "object", Path: path, Nullable: nullable, TypeName: pick(r, c02TypeNames), Source: "sg"}
	abstract := r.Intn(3) == 0
	if abstract {
		g.feats["abstract"] = true
		o.TypeName = "Actor"
		perm := r.Perm(len(c02TypeNames))
		for i := 0; i < 2+r.Intn(2); i++ {
			o.Possible = append(o.Possible, c02TypeNames[perm[i]])
		}
		if r.Intn(4) == 0 {
			o.InaccessibleTypes = []string{c02TypeNames[perm[3]]}
		}
	} else if r.Intn(3) == 0 {
		o.Possible = []string{o.TypeName} // concrete type with a typename check
	}
	if r.Intn(60) == 0 {
		o.Unresolvable = true
	}
	nf := 1 + r.Intn(4)
	if r.Intn(3) == 0 {
		o.Fields = append(o.Fields, &c02Field{Name: "__typename", Value: &c02Node{K: "scalar", Kind: "string", Path: []string{"__typename"}, Nullable: false, IsTypeName: r.Intn(4) != 0}})
	}
	for i := 0; i < nf; i++ {
		name := fmt.Sprintf("f%d", i)
		f := &c02Field{Name: name, Value: g.node(depth+1, od+1, []string{name})}
		if r.Intn(8) == 0 { // alias: response key differs from the data key
			f.Name = "alias" + name
		}
		if abstract && r.Intn(2) == 0 {
			f.On = []string{pick(r, o.Possible)}
			if r.Intn(3) == 0 {
				f.On = append(f.On, pick(r, c02TypeNames))
			}
			g.feats["type_guard"] = true
		} else if od >= 1 && r.Intn(10) == 0 {
			// Depth indexes the stack of enclosing objects' runtime types (0 = this object); the planner only emits valid depths
			f.ParentOn = [][2]any{{r.Intn(od + 1), []string{pick(r, c02TypeNames), pick(r, c02TypeNames)}}}
			g.feats["parent_guard"] = true
		}
		o.Fields = append(o.Fields, f)
	}
	return o
}

// type-directed payload with corruption
type c02Payload struct {
	r       *rand.Rand
	corrupt float64
	n       int // corruptions made
}

func (p *c02Payload) wrong(except string) any {
	opts := map[string]any{"number": json.Number("7"), "string": "wrong", "bool": true, "array": []any{json.Number("1")}, "object": map[string]any{"x": json.Number("1")}}
	keys := []string{"number", "string", "bool", "array", "object"}
	for {
		k := pick(p.r, keys)
		if k != except {
			return opts[k]
		}
	}
}

var c02Missing = struct{}{}

func (p *c02Payload) value(n *c02Node, depth int) any {
	r := p.r
	if r.Float64() < p.corrupt {
		p.n++
		switch r.Intn(3) {
		case 0:
			return nil
		case 1:
			return c02Missing
		default:
			return p.wrong("")
		}
	}
	if n.Nullable && r.Intn(8) == 0 {
		return nil
	}
	switch n.K {
	case "scalar":
		switch n.Kind {
		case "string":
			return pick(r, []string{"hello", "", "with \"quotes\" and \\ backslash", "üñí", "line\nbreak"})
		case "boolean":
			return r.Intn(2) == 0
		case "int":
			return json.Number(pick(r, []string{"0", "42", "-7", "2147483647"}))
		case "float":
			return json.Number(pick(r, []string{"1.5", "-0.25", "3", "1e3"}))
		case "bigInt":
			return json.Number("123456789012345678901234567890")
		default:
			return pick(r, []any{"s", json.Number("1"), true, map[string]any{"k": "v"}, []any{json.Number("1"), "x"}})
		}
	case "enum":
		if r.Float64() < p.corrupt*2 {
			p.n++
			return "PURPLE"
		}
		return pick(r, n.Values)
	case "array":
		k := r.Intn(4)
		if depth > 4 {
			k = r.Intn(2)
		}
		out := []any{}
		for i := 0; i < k; i++ {
			v := p.value(n.Item, depth+1)
			if v == c02Missing {
				v = nil
			}
			out = append(out, v)
		}
		return out
	case "object":
		obj := map[string]any{}
		tn := n.TypeName
		if len(n.Possible) > 0 {
			tn = pick(r, n.Possible)
		}
		switch {
		case r.Float64() < p.corrupt*2:
			p.n++
			switch r.Intn(4) {
			case 0:
				tn = "" // missing
			case 1:
				tn = "Unknown"
			case 2:
				if len(n.InaccessibleTypes) > 0 {
					tn = n.InaccessibleTypes[0]
				} else {
					tn = "Unknown"
				}
			default:
				obj["__typename"] = json.Number("5") // wrong kind
				tn = ""
			}
		}
		if tn != "" && len(n.Possible) == 0 && r.Intn(6) == 0 {
			// nothing constrains the runtime type name of this object: any string may come back
			tn = pick(r, []string{"Ty\"pe", "Back\\slash", "new\nline", "tab\there", "ünï", "a\u0001b", "\",\"injected\":\"x"})
		}
		if tn != "" && (len(n.Possible) > 0 || r.Intn(2) == 0) {
			obj["__typename"] = tn
		}
		for _, f := range n.Fields {
			if f.Name == "__typename" {
				continue
			}
			key := f.Value.Path
			if len(key) != 1 {
				continue
			}
			v := p.value(f.Value, depth+1)
			if v == c02Missing {
				continue
			}
			obj[key[0]] = v
		}
		if r.Intn(10) == 0 {
			obj["extra"] = "not selected"
		}
		return obj
	}
	return nil
}

// ---- implementation side ---------------------------------------------------------------------------

type c02ErrOut struct {
	Cls  string `json:"cls"`
	Path []any  `json:"path"`
	Msg  string `json:"-"`
}

type c02ImplOut struct {
	Raw      string
	Valid    bool
	Data     any
	HasData  bool
	Errors   []c02ErrOut
	TopKeys  []string
	Panic    any
	ResolveE string
}

func c02Classify(msg string) string {
	switch {
	case strings.HasPrefix(msg, "Cannot return null for non-nullable field"):
		return "nonNull"
	case msg == "Object cannot represent non-object value.":
		return "objectKind"
	case msg == "Array cannot represent non-array value.":
		return "arrayKind"
	case strings.HasPrefix(msg, "String cannot represent non-string value"):
		return "stringKind"
	case strings.HasPrefix(msg, "Bool cannot represent non-boolean value"):
		return "boolKind"
	case strings.HasPrefix(msg, "Int cannot represent non-integer value"):
		return "intKind"
	case strings.HasPrefix(msg, "Float cannot represent non-float value"):
		return "floatKind"
	case strings.HasPrefix(msg, `Enum "`) && strings.Contains(msg, `cannot represent value: "`):
		return "enumInvalid"
	case strings.HasPrefix(msg, `Enum "`):
		return "enumKind"
	case strings.HasPrefix(msg, "Invalid value found for"):
		return "enumInaccessible"
	case strings.HasSuffix(msg, "returned an invalid value for __typename field."):
		return "typenameOpaque"
	case strings.Contains(msg, "returned invalid value '"):
		return "typenameInvalid"
	case strings.HasPrefix(msg, "Unable to resolve field"):
		return "unresolvable"
	}
	return "unclassified:" + msg
}

func c02Impl(root *c02Node, data []byte) (out c02ImplOut) {
	defer func() {
		if p := recover(); p != nil {
			out.Panic = p
		}
	}()
	res := resolve.NewResolvable(nil, resolve.ResolvableOptions{})
	ctx := resolve.NewContext(context.Background())
	if err := res.Init(ctx, data, ast.OperationTypeQuery); err != nil {
		out.ResolveE = "init: " + err.Error()
		return
	}
	var buf bytes.Buffer
	if err := res.Resolve(context.Background(), root.build().(*resolve.Object), nil, &buf); err != nil {
		out.ResolveE = err.Error()
	}
	out.Raw = buf.String()
	var top map[string]json.RawMessage
	dec := json.NewDecoder(bytes.NewReader(buf.Bytes()))
	if err := dec.Decode(&top); err != nil {
		return
	}
	if dec.More() {
		return
	}
	out.Valid = true
	for k := range top {
		out.TopKeys = append(out.TopKeys, k)
	}
	if d, ok := top["data"]; ok {
		out.HasData = true
		out.Data = decodeRaw(d)
	}
	if e, ok := top["errors"]; ok {
		var errs []struct {
			Message string `json:"message"`
			Path    []any  `json:"path"`
		}
		dd := json.NewDecoder(bytes.NewReader(e))
		dd.UseNumber()
		if dd.Decode(&errs) != nil {
			out.Valid = false
			return
		}
		for _, x := range errs {
			p := x.Path
			if p == nil {
				p = []any{}
			}
			out.Errors = append(out.Errors, c02ErrOut{Cls: c02Classify(x.Message), Path: p, Msg: x.Message})
		}
	}
	return
}

// ---- property oracle (independent of the Lean model) --------------------------------------------------

func jsonKind(v any) string {
	switch v.(type) {
	case nil:
		return "null"
	case string:
		return "string"
	case bool:
		return "bool"
	case json.Number:
		return "number"
	case []any:
		return "array"
	case map[string]any:
		return "object"
	}
	return "?"
}

// conforms: does the rendered value conform to the node (kind, nullability, enum membership, selected keys)?
// `in` is the subgraph value at the same position (nil when unknown), used for the runtime type of objects.
func c02Conforms(n *c02Node, out any, path string, tns []string) string {
	if out == nil {
		switch n.K {
		case "null":
			return ""
		case "static", "emptyObject", "emptyArray":
			return path + ": static node rendered as null"
		}
		if !n.Nullable {
			return path + ": null in a non-null position"
		}
		return ""
	}
	switch n.K {
	case "null":
		return path + ": Null node rendered a value"
	case "static":
		if out != n.S {
			return path + ": static string differs"
		}
	case "emptyObject":
		if m, ok := out.(map[string]any); !ok || len(m) != 0 {
			return path + ": not an empty object"
		}
	case "emptyArray":
		if m, ok := out.([]any); !ok || len(m) != 0 {
			return path + ": not an empty array"
		}
	case "scalar":
		k := jsonKind(out)
		want := map[string]string{"string": "string", "boolean": "bool", "int": "number", "float": "number"}[n.Kind]
		if want != "" && k != want {
			return fmt.Sprintf("%s: %s position holds a JSON %s", path, n.Kind, k)
		}
	case "enum":
		s, ok := out.(string)
		if !ok || !containsStr(n.Values, s) || containsStr(n.Inaccessible, s) {
			return fmt.Sprintf("%s: %v is not an accessible value of the enum", path, out)
		}
	case "array":
		arr, ok := out.([]any)
		if !ok {
			return path + ": list position holds a non-array"
		}
		for i, x := range arr {
			if m := c02Conforms(n.Item, x, fmt.Sprintf("%s[%d]", path, i), tns); m != "" {
				return m
			}
		}
	case "object":
		obj, ok := out.(map[string]any)
		if !ok {
			return path + ": object position holds a non-object"
		}
		// the rendered object has no __typename unless selected; the key set must be a subset of the field names
		// and every field whose guard can be evaluated from rendered data must be present
		names := map[string]bool{}
		for _, f := range n.Fields {
			names[f.Name] = true
		}
		for k := range obj {
			if !names[k] {
				return fmt.Sprintf("%s: unselected key %q in the response", path, k)
			}
		}
		for _, f := range n.Fields {
			v, has := obj[f.Name]
			if !has {
				if f.On == nil && f.ParentOn == nil {
					return fmt.Sprintf("%s: selected key %q is missing", path, f.Name)
				}
				continue
			}
			if m := c02Conforms(f.Value, v, path+"."+f.Name, tns); m != "" {
				return m
			}
		}
	}
	return ""
}

// welltyped + project: if the subgraph data is well typed for the tree, the projection (what must be rendered)
func c02Project(n *c02Node, container any, tns []*string) (out any, ok bool) {
	get := func(c any, path []string) (any, bool) {
		cur := c
		for _, k := range path {
			m, isObj := cur.(map[string]any)
			if !isObj {
				return nil, false
			}
			v, has := m[k]
			if !has {
				return nil, false
			}
			cur = v
		}
		return cur, true
	}
	switch n.K {
	case "null":
		return nil, true
	case "static":
		return n.S, true
	case "emptyObject":
		return map[string]any{}, true
	case "emptyArray":
		return []any{}, true
	}
	if n.K == "object" && n.Unresolvable {
		return nil, false // always an error, whatever the data
	}
	v, has := get(container, n.Path)
	if !has || v == nil {
		return nil, n.Nullable
	}
	switch n.K {
	case "scalar":
		want := map[string]string{"string": "string", "boolean": "bool", "int": "number", "float": "number"}[n.Kind]
		if want != "" && jsonKind(v) != want {
			return nil, false
		}
		return v, true
	case "enum":
		s, isS := v.(string)
		if !isS || !containsStr(n.Values, s) || containsStr(n.Inaccessible, s) {
			return nil, false
		}
		return s, true
	case "array":
		arr, isA := v.([]any)
		if !isA {
			return nil, false
		}
		res := []any{}
		for _, x := range arr {
			o, ok := c02Project(n.Item, x, tns)
			if !ok {
				return nil, false
			}
			res = append(res, o)
		}
		return res, true
	case "object":
		if n.Unresolvable {
			return nil, false
		}
		obj, isO := v.(map[string]any)
		if !isO {
			return nil, false
		}
		var tn *string
		if s, isS := obj["__typename"].(string); isS {
			tn = &s
		}
		abstract := len(n.Possible) > 1 || (len(n.Possible) == 1 && n.Possible[0] != n.TypeName)
		if tn == nil && abstract {
			return nil, false
		}
		if tn != nil && len(n.Possible) > 0 && !containsStr(n.Possible, *tn) {
			return nil, false
		}
		stack := append([]*string{tn}, tns...)
		res := map[string]any{}
		for _, f := range n.Fields {
			skip := false
			if f.ParentOn != nil {
				for _, p := range f.ParentOn {
					d := p[0].(int)
					if d >= len(stack) || stack[d] == nil || !containsStr(p[1].([]string), *stack[d]) {
						skip = true
					}
				}
			}
			if f.On != nil && (tn == nil || !containsStr(f.On, *tn)) {
				skip = true
			}
			if skip {
				continue
			}
			o, ok := c02Project(f.Value, obj, stack)
			if !ok {
				return nil, false
			}
			res[f.Name] = o
		}
		return res, true
	}
	return nil, false
}

// ---- the check -------------------------------------------------------------------------------------

func c02Check(run *Run, root *c02Node, data []byte, feats map[string]bool, corruptions int) {
	in := map[string]any{"tree": root, "data": json.RawMessage(data)}
	out := c02Impl(root, data)
	fs := []string{}
	for f := range feats {
		fs = append(fs, f)
	}
	if corruptions > 0 {
		fs = append(fs, "corrupted")
	}
	key := ""
	if corruptions > 0 || feats["abstract"] || feats["list_of_list"] {
		key = string(data) + jsonStr(root)
	}
	if out.Panic != nil {
		run.Count(key, fs...)
		run.Violate(Violation{Kind: "oracle", Clause: "render_no_panic", Input: in, Detail: fmt.Sprint(out.Panic)}, "")
		return
	}
	if out.ResolveE != "" {
		run.Count(key, fs...)
		run.Violate(Violation{Kind: "oracle", Clause: "resolve_returns_error", Input: in, Detail: out.ResolveE}, "")
		return
	}
	if !out.Valid {
		run.Count(key, fs...)
		run.Violate(Violation{Kind: "oracle", Clause: "render_is_json", Input: in, Impl: out.Raw, Detail: "the response is not one syntactically valid JSON object"}, "")
		return
	}
	for _, k := range out.TopKeys {
		if k != "data" && k != "errors" {
			run.Violate(Violation{Kind: "oracle", Clause: "response_keys", Input: in, Impl: out.Raw, Detail: "unexpected top-level key " + k}, "")
		}
	}
	if !out.HasData {
		run.Violate(Violation{Kind: "oracle", Clause: "response_keys", Input: in, Impl: out.Raw, Detail: "no data key"}, "")
		return
	}
	if out.Data == nil {
		fs = append(fs, "data_null")
	}
	if len(out.Errors) > 0 {
		fs = append(fs, "has_errors")
	}
	run.Count(key, fs...)
	// type safety of the rendered data
	if out.Data != nil {
		if msg := c02Conforms(root, out.Data, "data", nil); msg != "" {
			run.Violate(Violation{Kind: "oracle", Clause: "render_typesafe", Input: in, Impl: out.Raw, Detail: msg}, "")
			return
		}
	}
	// well-typed data: exact projection, no errors
	var dv any
	dec := json.NewDecoder(bytes.NewReader(data))
	dec.UseNumber()
	dec.Decode(&dv)
	if proj, ok := c02Project(root, dv, nil); ok {
		run.Feat("welltyped")
		if len(out.Errors) > 0 || !reflect.DeepEqual(proj, out.Data) {
			run.Violate(Violation{Kind: "oracle", Clause: "welltyped_projects", Input: in, Impl: out.Raw,
				Detail: "the subgraph data is well typed, so the response must be exactly its projection without errors; expected data " + jsonStr(proj)}, "")
			return
		}
	} else {
		// ill-typed somewhere: at least one error must be reported
		if len(out.Errors) == 0 {
			run.Violate(Violation{Kind: "oracle", Clause: "replacement_reported", Input: in, Impl: out.Raw, Detail: "the data is not well typed for the selection but no error is reported"}, "")
			return
		}
	}
	for _, e := range out.Errors {
		if strings.HasPrefix(e.Cls, "unclassified") {
			run.Violate(Violation{Kind: "correspondence", Clause: "unclassified error message", Input: in, Impl: out.Raw, Detail: e.Msg}, "")
			return
		}
	}
	// correspondence with the Lean model
	m, err := run.Pool.Ask("c02.render", map[string]any{"tree": root, "data": json.RawMessage(data)})
	if err != nil {
		run.Violate(Violation{Kind: "correspondence", Clause: "driver", Input: in, Detail: err.Error()}, "")
		return
	}
	errs := [][2]any{}
	for _, e := range out.Errors {
		errs = append(errs, [2]any{e.Cls, e.Path})
	}
	impl := map[string]any{"errors": errs, "data": out.Data, "dataNull": out.Data == nil, "malformed": false}
	var mo struct {
		Errors    [][2]any `json:"errors"`
		Data      any      `json:"data"`
		DataNull  bool     `json:"dataNull"`
		Malformed bool     `json:"malformed"`
		Wf        bool     `json:"wf"`
	}
	md := json.NewDecoder(bytes.NewReader(m))
	md.UseNumber()
	md.Decode(&mo)
	// the shape hypothesis of the type-safety theorems (Props.C02 two_pass_agree, rendered_data_type_safe), evaluated by the model
	if mo.Wf {
		run.Feat("tree_has_the_shape_of_the_theorems")
	} else {
		run.Feat("tree_outside_the_shape_of_the_theorems")
	}
	// the model distinguishes typename missing / inaccessible; the Go message is the same for both
	for i := range mo.Errors {
		if c, _ := mo.Errors[i][0].(string); c == "typenameMissing" || c == "typenameInaccessible" {
			mo.Errors[i][0] = "typenameOpaque"
		}
	}
	model := map[string]any{"errors": mo.Errors, "data": mo.Data, "dataNull": mo.DataNull && mo.Data == nil, "malformed": mo.Malformed}
	if !mo.DataNull && mo.Data == nil && !mo.Malformed {
		model["dataNull"] = false
	}
	impl["dataNull"] = nil
	model["dataNull"] = nil
	if !reflect.DeepEqual(canon(impl), canon(model)) {
		run.Violate(Violation{Kind: "correspondence", Clause: "c02.render model≠impl", Input: in, Impl: map[string]any{"raw": out.Raw, "canonical": impl}, Model: model}, "")
		return
	}
	if corruptions > 0 && len(data) < 300 {
		run.Sample(map[string]any{"tree": root, "data": string(data), "response": out.Raw})
	}
}

func runC02(run *Run, replay string) Spec {
	spec := Spec{
		Level: "proof",
		Rule: "random response plan trees (objects with type guards on fields, abstract objects with possible/inaccessible types, lists incl. lists of lists, all scalar kinds, enums with inaccessible values, static nodes, aliases; depth <= 5) x " +
			"type-directed payloads corrupted per node with probability 0/3/10% (null, missing key, wrong JSON kind, invalid enum value, missing/unknown/inaccessible/ill-kinded __typename, extra keys); " +
			"every case: real Resolvable.Resolve vs Lean model (data + ordered (class,path) error list) + independent Go oracles (valid JSON, top-level keys, type safety, selected keys, projection of well-typed data, error reported). " +
			"non-trivial = corrupted, abstract or nested list; distinct = distinct (tree, payload)",
		TrustedBase: []string{"Lean 4 kernel", "axioms: propext, Classical.choice, Quot.sound only (audited)",
			"hand-written Lean model GqlVerif.Plan.Render of the two-pass renderer (default options), tied by differential execution and regenerated kind-check tables",
			"astjson Get/Set semantics as modelled (object key first match, decimal array index)", "Go harness vh: tree/payload generators, message classifier, Conforms/project oracles"},
		Assumptions: []string{"JSON objects from subgraphs have no duplicate keys and no key named __skipErrors", "default ResolvableOptions (no Apollo compatibility modes, field renderer, cost control, authorization, defer)",
			"Int range / integrality is not checked by the renderer (kind-level conformance only)"},
	}
	if replay != "" {
		b, err := os.ReadFile(replay)
		if err == nil {
			var f struct {
				Violation struct {
					Input struct {
						Tree *c02Node        `json:"tree"`
						Data json.RawMessage `json:"data"`
					} `json:"input"`
				} `json:"violation"`
			}
			if json.Unmarshal(b, &f) == nil && f.Violation.Input.Tree != nil {
				fixParentOn(f.Violation.Input.Tree)
				c02Check(run, f.Violation.Input.Tree, f.Violation.Input.Data, map[string]bool{"replay": true}, 1)
			}
		}
		return spec
	}
	// corpus: minimised past failures and design-time witnesses
	nested := &c02Node{K: "object", TypeName: "Query", Fields: []*c02Field{{Name: "m", Value: &c02Node{K: "array", Path: []string{"m"}, Nullable: true,
		Item: &c02Node{K: "array", Nullable: true, Item: &c02Node{K: "scalar", Kind: "int"}}}}}}
	c02Check(run, nested, []byte(`{"m":[[1,null]]}`), map[string]bool{"list_of_list": true, "corpus": true}, 1)
	c02Check(run, nested, []byte(`{"m":[[1,2],[3,null],[4]]}`), map[string]bool{"list_of_list": true, "corpus": true}, 1)
	kindErr := &c02Node{K: "object", TypeName: "Query", Fields: []*c02Field{{Name: "user", Value: &c02Node{K: "object", Path: []string{"user"}, Nullable: true, TypeName: "User",
		Fields: []*c02Field{{Name: "tags", Value: &c02Node{K: "array", Path: []string{"tags"}, Nullable: true, Item: &c02Node{K: "scalar", Kind: "string"}}}}}}}}
	c02Check(run, kindErr, []byte(`{"user":{"tags":"oops"}}`), map[string]bool{"corpus": true}, 1)
	c02Check(run, kindErr, []byte(`{"user":7}`), map[string]bool{"corpus": true}, 1)
	n := 40_000
	if run.Tier == "thorough" {
		n = 2_000_000
	}
	parallelFor(n, 12, func(i int) {
		if run.NViolations() >= 20 {
			return
		}
		r := subRng(run.Seed, i)
		g := &c02Gen{r: r, feats: map[string]bool{}}
		root := g.object(0, 0, nil, false)
		root.Possible, root.InaccessibleTypes, root.Unresolvable = nil, nil, false
		root.TypeName = "Query"
		for _, f := range root.Fields {
			f.On, f.ParentOn = nil, nil
		}
		for k := 0; k < 3; k++ {
			p := &c02Payload{r: r, corrupt: []float64{0, 0.03, 0.1}[r.Intn(3)]}
			v := p.value(root, 0)
			if _, ok := v.(map[string]any); !ok {
				v = map[string]any{}
			}
			data, _ := json.Marshal(v)
			c02Check(run, root, data, g.feats, p.n)
		}
	})
	return spec
}

// after JSON decoding a replayed tree, parentOn entries are []any; restore the Go types the builder expects
func fixParentOn(n *c02Node) {
	if n == nil {
		return
	}
	for _, f := range n.Fields {
		for i, p := range f.ParentOn {
			d, _ := p[0].(float64)
			names := []string{}
			if arr, ok := p[1].([]any); ok {
				for _, x := range arr {
					if s, ok := x.(string); ok {
						names = append(names, s)
					}
				}
			}
			f.ParentOn[i] = [2]any{int(d), names}
		}
		fixParentOn(f.Value)
	}
	fixParentOn(n.Item)
}
