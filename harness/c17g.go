package main

// C17: what introspection has to list, read directly off the generated schema structure (the ground truth the SDL
// was printed from) — independent of the Lean model. When the implementation disagrees with the model, the
// disagreement is judged against these facts: if the implementation's answer is not the ground truth, the schema is
// a concrete failing input of the property itself.

import (
	"fmt"
	"sort"
	"strings"
)

func c17GroundFacts(s *c17Schema) []string {
	kind := map[string]string{}
	for _, t := range s.Types {
		kind[t.Name] = t.Kind
	}
	var ref func(r *c17Ref) string
	ref = func(r *c17Ref) string {
		switch r.Kind {
		case "list":
			return "[" + ref(r.Of) + "]"
		case "nonnull":
			return ref(r.Of) + "!"
		}
		k, ok := kind[r.Name]
		if !ok {
			k = "SCALAR"
		}
		return r.Name + ":" + k
	}
	dep := func(d *string) string { return "dep:" + c17Opt(d) }
	var out []string
	out = append(out, "R|query|"+s.Query)
	if s.Mutation != "" {
		out = append(out, "R|mutation|"+s.Mutation)
	}
	if s.Subscription != "" {
		out = append(out, "R|subscription|"+s.Subscription)
	}
	for _, t := range s.Types {
		out = append(out, "T|"+t.Name+"|"+t.Kind)
		if t.Kind == "OBJECT" || t.Kind == "INTERFACE" {
			for _, f := range t.Fields {
				out = append(out, fmt.Sprintf("F|%s.%s|%s|%s", t.Name, f.Name, ref(f.Type), dep(f.Dep)))
				for _, a := range f.Args {
					out = append(out, fmt.Sprintf("A|%s.%s(%s)|%s|def:%s", t.Name, f.Name, a.Name, ref(a.Type), c17Opt(a.Default)))
				}
			}
			for _, i := range t.Interfaces {
				out = append(out, "IF|"+t.Name+"->"+i+":INTERFACE")
			}
		}
		if t.Kind == "INPUT_OBJECT" {
			for _, f := range t.InputFields {
				out = append(out, fmt.Sprintf("I|%s.%s|%s|def:%s", t.Name, f.Name, ref(f.Type), c17Opt(f.Default)))
			}
		}
		if t.Kind == "ENUM" {
			for _, v := range t.EnumValues {
				out = append(out, fmt.Sprintf("E|%s.%s|%s", t.Name, v.Name, dep(v.Dep)))
			}
		}
		if t.Kind == "UNION" {
			for _, m := range t.Members {
				out = append(out, "PT|"+t.Name+"->"+ref(&c17Ref{Kind: "named", Name: m}))
			}
		}
		if t.Kind == "INTERFACE" {
			for _, u := range t2objects(s) {
				if containsStr(u.Interfaces, t.Name) {
					out = append(out, "PT|"+t.Name+"->"+u.Name+":OBJECT")
				}
			}
		}
	}
	for _, d := range s.Directives {
		locs := append([]string{}, d.Locations...)
		sort.Strings(locs)
		out = append(out, fmt.Sprintf("D|@%s|%s|rep:%v", d.Name, strings.Join(locs, ","), d.Repeatable))
		for _, a := range d.Args {
			out = append(out, fmt.Sprintf("DA|@%s(%s)|%s|def:%s", d.Name, a.Name, ref(a.Type), c17Opt(a.Default)))
		}
	}
	sort.Strings(out)
	return out
}

func t2objects(s *c17Schema) []c17Type {
	var out []c17Type
	for _, t := range s.Types {
		if t.Kind == "OBJECT" {
			out = append(out, t)
		}
	}
	return out
}
