package main

import (
	"flag"
	"fmt"
	"os"
	"runtime"
	"strconv"
)

type propFunc func(r *Run, replay string) Spec

var props = map[string]propFunc{}

func main() {
	if len(os.Args) < 2 {
		fmt.Fprintln(os.Stderr, "usage: vh <Cxx> [--tier quick|thorough] [--seed N] [--driver path] [--audit file] [--replay file]")
		os.Exit(2)
	}
	prop := os.Args[1]
	if prop == "c08-fail-child" { // one failing-requests case in a process of its own (a Go runtime abort cannot be recovered)
		c08FailChild()
		return
	}
	fs := flag.NewFlagSet("vh", flag.ExitOnError)
	tier := fs.String("tier", "quick", "quick|thorough")
	seed := fs.Int64("seed", 1, "seed")
	driver := fs.String("driver", "/verif/lean/.lake/build/bin/driver", "lean driver")
	audit := fs.String("audit", "", "audit json from the Lean side")
	replay := fs.String("replay", "", "replay file")
	verifDir := fs.String("verif", "/verif", "verif dir")
	fs.Parse(os.Args[2:])
	if s := os.Getenv("VERIF_SEED"); s != "" && !isFlagSet(fs, "seed") {
		if v, err := strconv.ParseInt(s, 10, 64); err == nil {
			*seed = v
		}
	}
	f, ok := props[prop]
	if !ok {
		fmt.Fprintf(os.Stderr, "unknown property %s\n", prop)
		os.Exit(2)
	}
	pool, err := NewDriverPool(*driver, min(runtime.NumCPU(), 12))
	if err != nil {
		fmt.Fprintf(os.Stderr, "cannot start driver: %v\n", err)
		os.Exit(2)
	}
	run := NewRun(prop, *tier, *seed, *verifDir)
	run.Pool = pool
	a := readAudit(*audit)
	if a != nil {
		run.BrokenTheorem = a.Broken
	}
	spec := f(run, *replay)
	pool.Close()
	os.Exit(run.Finish(spec, a))
}

func isFlagSet(fs *flag.FlagSet, name string) bool {
	set := false
	fs.Visit(func(f *flag.Flag) {
		if f.Name == name {
			set = true
		}
	})
	return set
}
