package main

// C14, subscription updates: a subscription on the federation bench whose events need nested entity fetches, under both
// authorizer modes.  The event source is scripted (every event is the reference executor's answer to the subscription
// operation the subgraph received); every update the client receives is judged like a query response, and the subgraph
// traffic of the whole subscription is judged by the request-sent rule.

import (
	"context"
	"encoding/json"
	"fmt"
	"math/rand"
	"net/url"
	"os"
	"strings"
	"sync"
	"time"

	"github.com/wundergraph/graphql-go-tools/execution/engine"
	"github.com/wundergraph/graphql-go-tools/execution/graphql"
	"github.com/wundergraph/graphql-go-tools/v2/pkg/engine/datasource/graphql_datasource"
	"github.com/wundergraph/graphql-go-tools/v2/pkg/engine/resolve"
)

var c14SubLayoutOnce sync.Once
var c14SubLayoutErr error

func c14SubLayout() (*fedLayout, error) {
	lm, err := c14Layout()
	if err != nil {
		return nil, err
	}
	layouts, _ := fedGetLayouts()
	c14SubLayoutOnce.Do(func() {
		l := &fedLayout{Name: "L1S", Super: lm.Super + "\ntype Subscription { productUpdated(upc: ID!): Product userChanged(id: ID!): User reviewAdded(id: ID!): Review }\n"}
		for _, sg := range lm.Subs {
			c := &fedSubgraph{Name: sg.Name, SDL: sg.SDL}
			switch sg.Name {
			case "products":
				c.SDL += "\ntype Subscription { productUpdated(upc: ID!): Product }\n"
			case "accounts":
				c.SDL += "\ntype Subscription { userChanged(id: ID!): User }\n"
			case "reviews":
				c.SDL += "\ntype Subscription { reviewAdded(id: ID!): Review }\n"
			}
			l.Subs = append(l.Subs, c)
		}
		if err := l.prepare(); err != nil {
			c14SubLayoutErr = err
			return
		}
		layouts["L1S"] = l
	})
	return layouts["L1S"], c14SubLayoutErr
}

// the scripted event source of every subgraph
type c14SubClient struct {
	fe     *fedEngine
	events int
}

func (c *c14SubClient) Subscribe(ctx *resolve.Context, options graphql_datasource.GraphQLSubscriptionOptions, updater resolve.SubscriptionUpdater) error {
	sess := c.fe.current()
	if sess == nil {
		return fmt.Errorf("no session")
	}
	name := ""
	if u, err := url.Parse(options.URL); err == nil {
		name = u.Hostname()
	}
	var sub *fedSubgraph
	for _, sg := range c.fe.layout.Subs {
		if sg.Name == name {
			sub = sg
		}
	}
	if sub == nil {
		sess.problem("subscription for an unknown subgraph url %q", options.URL)
		return fmt.Errorf("unknown subgraph")
	}
	sess.mu.Lock()
	seq := sess.seq
	sess.seq++
	sess.mu.Unlock()
	sess.record(fedExchange{Subgraph: sub.Name, Query: options.Body.Query, Variables: options.Body.Variables, Response: "<subscription started>", Status: 200, Seq: seq})
	go func() {
		for k := 0; k < c.events; k++ {
			updater.Update([]byte(sess.answer(sub, options.Body.Query, options.Body.Variables, options.Body.OperationName)))
		}
		updater.Complete()
		updater.Done()
	}()
	return nil
}

// one message per Flush
type c14SubWriter struct {
	mu       sync.Mutex
	buf      []byte
	msgs     []string
	complete bool
	errs     []string
}

func (w *c14SubWriter) Write(p []byte) (int, error) {
	w.mu.Lock()
	w.buf = append(w.buf, p...)
	w.mu.Unlock()
	return len(p), nil
}
func (w *c14SubWriter) Flush() error {
	w.mu.Lock()
	if len(w.buf) > 0 {
		w.msgs = append(w.msgs, string(w.buf))
		w.buf = nil
	}
	w.mu.Unlock()
	return nil
}
func (w *c14SubWriter) Complete()        { w.mu.Lock(); w.complete = true; w.mu.Unlock() }
func (w *c14SubWriter) Heartbeat() error { return nil }
func (w *c14SubWriter) Error(data []byte) {
	w.mu.Lock()
	w.errs = append(w.errs, string(data))
	w.mu.Unlock()
}

func c14GenSubscription(r *rand.Rand, s *fedSchema, u *fedUniverse) (string, []byte) {
	g := &fedOpGen{r: r, s: s, vars: map[string]any{}, feats: map[string]bool{}, budget: 10 + r.Intn(12)}
	hint := func(arg string) string {
		var cands []string
		for _, n := range u.Nodes {
			if v, ok := n.Fields[arg].(map[string]any); ok {
				if sv, ok := v["s"].(string); ok {
					cands = append(cands, sv)
				}
			}
		}
		if len(cands) == 0 {
			return "nope"
		}
		return cands[r.Intn(len(cands))]
	}
	st := s.typ("Subscription")
	f := st.Fields[r.Intn(len(st.Fields))]
	arg := f.ArgNames[0]
	op := "subscription Q"
	part := fmt.Sprintf("%s(%s: %q) %s", f.Name, arg, hint(arg), g.selection(fedNamed(f.Type), 1, hint))
	if len(g.decls) > 0 {
		op += "(" + strings.Join(g.decls, ", ") + ")"
	}
	op += " { " + part + " }"
	if len(g.frags) > 0 {
		op += " " + strings.Join(g.frags, " ")
	}
	vars, _ := json.Marshal(g.vars)
	return op, vars
}

type c14SubCase struct {
	Subscription bool            `json:"subscription"`
	Universe     *fedUniverse    `json:"universe"`
	Operation    string          `json:"operation"`
	Variables    json.RawMessage `json:"variables"`
	Protected    [][2]string     `json:"protected"`
	Denied       [][2]string     `json:"denied"`
	Events       int             `json:"events"`
}

func c14GenSubCase(r *rand.Rand, l *fedLayout) *c14SubCase {
	u := fedL1Universe(r)
	op, vars := c14GenSubscription(r, l.super, u)
	prot, den := c14GenDecisions(r, l.super)
	// the subscription root fields can be protected too
	for _, f := range []string{"productUpdated", "userChanged", "reviewAdded"} {
		if r.Intn(8) == 0 {
			prot = append(prot, [2]string{"Subscription", f})
			if r.Intn(2) == 0 {
				den = append(den, [2]string{"Subscription", f})
			}
		}
	}
	return &c14SubCase{Subscription: true, Universe: u, Operation: op, Variables: vars, Protected: prot, Denied: den, Events: 1 + r.Intn(3)}
}

func c14SubCheck(run *Run, sc *c14SubCase) {
	l, err := c14SubLayout()
	if err != nil {
		run.Violate(Violation{Kind: "oracle", Clause: "layout_builds", Detail: err.Error()}, "")
		return
	}
	in := map[string]any{"case": sc}
	prot, den := map[[2]string]bool{}, map[[2]string]bool{}
	for _, p := range sc.Protected {
		prot[p] = true
	}
	for _, d := range sc.Denied {
		den[d] = true
	}
	c := &c14Case{Universe: sc.Universe, Operation: sc.Operation, Variables: sc.Variables, Protected: sc.Protected, Denied: sc.Denied}
	clean, _, err := c14Reference(run, l, c, sc.Operation, sc.Variables, nil)
	if err != nil {
		run.Violate(Violation{Kind: "correspondence", Clause: "driver", Input: in, Detail: err.Error()}, "")
		return
	}
	want, wantErrs, err := c14Reference(run, l, c, sc.Operation, sc.Variables, sc.Denied)
	if err != nil {
		run.Violate(Violation{Kind: "correspondence", Clause: "driver", Input: in, Detail: err.Error()}, "")
		return
	}
	var nulledPos [][]any
	c14NulledPositions(clean, want, nil, &nulledPos)
	cleanStrs, wantStrs := map[string]bool{}, map[string]bool{}
	c14Strings(clean, cleanStrs)
	c14Strings(want, wantStrs)
	deniedInput := c14DeniedRequiresInput(l, den)
	var secrets []string
	for s := range cleanStrs {
		if !wantStrs[s] && len(s) >= 3 && !(deniedInput && strings.HasPrefix(s, "c(null")) {
			secrets = append(secrets, s)
		}
	}
	rootDenied := false
	for d := range den {
		if d[0] == "Subscription" && strings.Contains(sc.Operation, d[1]+"(") {
			rootDenied = true
		}
	}
	for _, mode := range []string{"postfetch", "prefetch"} {
		eng, err := fedNewEngine(l, fedEngineOpts{customize: c14Customize(c), subClient: func(fe *fedEngine) graphql_datasource.GraphQLSubscriptionClient {
			return &c14SubClient{fe: fe, events: sc.Events}
		}})
		if err != nil {
			run.Violate(Violation{Kind: "oracle", Clause: "engine_builds", Input: in, Detail: err.Error()}, "")
			return
		}
		auth := &c14Authorizer{denied: den, asked: map[[2]string]bool{}}
		opt := engine.WithAuthorizer(auth)
		if mode == "prefetch" {
			opt = engine.WithPreFetchFieldAuthorizer(auth)
		}
		in2 := map[string]any{"case": sc, "mode": mode}
		sess := &fedSession{layout: l, universe: sc.Universe, pool: run.Pool}
		eng.mu.Lock()
		eng.sess = sess
		eng.mu.Unlock()
		w := &c14SubWriter{}
		req := graphql.Request{Query: sc.Operation, OperationName: "Q", Variables: sc.Variables}
		ctx, cancel := context.WithTimeout(context.Background(), 10*time.Second)
		done := make(chan error, 1)
		go func() { done <- eng.eng.Execute(ctx, &req, w, opt) }()
		var execErr error
		select {
		case execErr = <-done:
		case <-time.After(12 * time.Second):
			execErr = fmt.Errorf("the subscription did not end within 12s")
		}
		cancel()
		w.mu.Lock()
		msgs := append([]string{}, w.msgs...)
		werrs := append([]string{}, w.errs...)
		w.mu.Unlock()
		sess.mu.Lock()
		log := append([]fedExchange{}, sess.log...)
		sess.mu.Unlock()
		eng.cancel()
		if execErr != nil && strings.Contains(execErr.Error(), "did not end") {
			run.Violate(Violation{Kind: "oracle", Clause: "subscription_ends:" + mode, Input: in2, Detail: execErr.Error()}, "")
			continue
		}
		if rootDenied {
			// a denied subscription root: nothing of it may arrive
			all := strings.Join(msgs, "\n")
			for _, s := range secrets {
				b, _ := json.Marshal(s)
				if strings.Contains(all, string(b)) {
					run.Violate(Violation{Kind: "oracle", Clause: "no_denied_value_in_subscription_update:" + mode, Input: in2, Impl: msgs,
						Detail: fmt.Sprintf("the subscription field is denied, but an update contains %s: %s", b, truncate(all, 900))}, "")
					break
				}
			}
			if mode == "prefetch" {
				for _, ex := range log {
					if ex.Response == "<subscription started>" {
						run.Violate(Violation{Kind: "oracle", Clause: "denied_subscription_not_started:" + mode, Input: in2, Impl: log,
							Detail: fmt.Sprintf("the subscription field is denied up front, yet the subscription was started on subgraph %s: %s", ex.Subgraph, ex.Query)}, "")
						break
					}
				}
			}
			run.Feat("subscription:root_denied:" + mode)
			continue
		}
		if execErr != nil {
			if os.Getenv("VERIF_DEBUG") != "" {
				fmt.Fprintf(os.Stderr, "subscription execute error: %v | %s\n", execErr, sc.Operation)
			}
			run.Feat("subscription:execute_error")
			continue
		}
		if len(msgs) != sc.Events || len(werrs) > 0 {
			run.Violate(Violation{Kind: "oracle", Clause: "one_update_per_event:" + mode, Input: in2, Impl: map[string]any{"messages": msgs, "errors": werrs},
				Detail: fmt.Sprintf("%d events, %d updates, %d error frames", sc.Events, len(msgs), len(werrs))}, "")
			continue
		}
		for k, m := range msgs {
			var parsed struct {
				Data   any   `json:"data"`
				Errors []any `json:"errors"`
			}
			dec := json.NewDecoder(strings.NewReader(m))
			dec.UseNumber()
			if err := dec.Decode(&parsed); err != nil {
				run.Violate(Violation{Kind: "oracle", Clause: "update_is_json:" + mode, Input: in2, Impl: m, Detail: err.Error()}, "")
				break
			}
			gotCmp, wantCmp := parsed.Data, want
			if deniedInput {
				gotCmp, wantCmp = c14MaskComputed(parsed.Data), c14MaskComputed(want)
			}
			if !fedJSONEqual(gotCmp, wantCmp) {
				run.Violate(Violation{Kind: "oracle", Clause: "update_equals_reference_under_denial:" + mode, Input: in2, Impl: map[string]any{"update": m, "requests": log}, Model: want,
					Detail: fmt.Sprintf("update %d: %s; reference with the denied coordinates %s; reference without denial %s", k, truncate(m, 900), truncate(jsonStr(want), 700), truncate(jsonStr(clean), 500))}, "")
				break
			}
			bad := false
			for _, s := range secrets {
				b, _ := json.Marshal(s)
				if strings.Contains(m, string(b)) {
					run.Violate(Violation{Kind: "oracle", Clause: "no_denied_value_in_subscription_update:" + mode, Input: in2, Impl: m,
						Detail: fmt.Sprintf("update %d contains %s, which only denied positions hold: %s", k, b, truncate(m, 900))}, "")
					bad = true
					break
				}
			}
			if bad {
				break
			}
			c14CheckErrors(run, in2, mode, parsed.Data, parsed.Errors, nulledPos, len(wantErrs) > 0, m)
		}
		// the request-sent rule over the traffic of the whole subscription (the nested fetches of every update)
		var fetches []fedExchange
		for _, ex := range log {
			if ex.Response != "<subscription started>" {
				fetches = append(fetches, ex)
			}
		}
		c14CheckRequests(run, in2, mode, l, fetches, prot, den)
		run.Feat("subscription:" + mode)
		run.Feat(fmt.Sprintf("subscription:nested_fetches:%d", min(len(fetches), 6)))
		run.mu.Lock()
		run.TracesVsImpl++
		run.mu.Unlock()
	}
	if len(nulledPos) > 0 {
		run.Feat("subscription:denial_reached")
	}
}
