package main

// C13, second stream: the trigger key of the GraphQL data source.  The model treats a trigger key as an
// abstract value that is equal exactly when the upstream input (and forwarded headers) are equal.  For the real
// graphql_datasource.SubscriptionSource that means: two rendered inputs that make Start open different upstream
// subscriptions (different parsed GraphQLSubscriptionOptions) must hash differently, equal inputs equally.

import (
	"encoding/json"
	"fmt"
	"math/rand"
	"reflect"

	"github.com/cespare/xxhash/v2"

	"github.com/wundergraph/graphql-go-tools/v2/pkg/engine/datasource/graphql_datasource"
)

type c13Input struct {
	URL            string          `json:"url"`
	InitialPayload json.RawMessage `json:"initial_payload,omitempty"`
	Body           struct {
		Query         string          `json:"query,omitempty"`
		OperationName string          `json:"operationName,omitempty"`
		Variables     json.RawMessage `json:"variables,omitempty"`
		Extensions    json.RawMessage `json:"extensions,omitempty"`
	} `json:"body"`
	UseSSE        bool   `json:"use_sse,omitempty"`
	SSEMethodPost bool   `json:"sse_method_post,omitempty"`
	WsSubProtocol string `json:"ws_sub_protocol,omitempty"`
}

func c13GenInput(rng *rand.Rand) c13Input {
	var in c13Input
	in.URL = pick(rng, []string{"ws://a.example/graphql", "ws://b.example/graphql", "http://a.example/sse"})
	in.Body.Query = pick(rng, []string{"subscription{counter}", "subscription($id:ID!){item(id:$id){name}}", "subscription S{a b}"})
	if rng.Intn(2) == 0 {
		in.Body.OperationName = pick(rng, []string{"S", "T"})
	}
	if rng.Intn(2) == 0 {
		in.Body.Variables = json.RawMessage(pick(rng, []string{`{"id":"1"}`, `{"id":"2"}`, `{"id":"1","x":null}`}))
	}
	if rng.Intn(2) == 0 {
		in.Body.Extensions = json.RawMessage(pick(rng, []string{`{"token":"a"}`, `{"token":"b"}`, `{"persistedQuery":{"version":1}}`}))
	}
	if rng.Intn(3) == 0 {
		in.InitialPayload = json.RawMessage(pick(rng, []string{`{"auth":"u1"}`, `{"auth":"u2"}`}))
	}
	in.UseSSE = rng.Intn(4) == 0
	in.SSEMethodPost = in.UseSSE && rng.Intn(2) == 0
	if rng.Intn(3) == 0 {
		in.WsSubProtocol = pick(rng, []string{"graphql-ws", "graphql-transport-ws"})
	}
	return in
}

func c13Mutate(rng *rand.Rand, in c13Input) (c13Input, string) {
	out := in
	switch rng.Intn(9) {
	case 0:
		out.URL += "/v2"
		return out, "url"
	case 1:
		out.Body.Query += " "
		return out, "body.query"
	case 2:
		out.Body.OperationName += "X"
		return out, "body.operationName"
	case 3:
		out.Body.Variables = json.RawMessage(`{"id":"3"}`)
		return out, "body.variables"
	case 4:
		out.Body.Extensions = json.RawMessage(`{"token":"c"}`)
		return out, "body.extensions"
	case 5:
		out.InitialPayload = json.RawMessage(`{"auth":"u3"}`)
		return out, "initial_payload"
	case 6:
		out.UseSSE = !out.UseSSE
		return out, "use_sse"
	case 7:
		out.SSEMethodPost = !out.SSEMethodPost
		return out, "sse_method_post"
	default:
		out.WsSubProtocol += "x"
		return out, "ws_sub_protocol"
	}
}

func c13Hash(input []byte) (uint64, error) {
	src := &graphql_datasource.SubscriptionSource{}
	d := xxhash.New()
	if err := src.HashTriggerInput(input, d); err != nil {
		return 0, err
	}
	return d.Sum64(), nil
}

func c13KeyStream(run *Run, n int) {
	for k := 0; k < n && run.NViolations() < 5; k++ {
		rng := subRng(run.Seed+7919, k)
		a := c13GenInput(rng)
		b, field := c13Mutate(rng, a)
		ja, _ := json.Marshal(a)
		jb, _ := json.Marshal(b)
		var oa, ob graphql_datasource.GraphQLSubscriptionOptions
		if json.Unmarshal(ja, &oa) != nil || json.Unmarshal(jb, &ob) != nil {
			continue
		}
		ha, ea := c13Hash(ja)
		hb, eb := c13Hash(jb)
		ha2, _ := c13Hash(ja)
		run.Count(string(ja)+"|"+field, "key:"+field)
		in := map[string]any{"a": string(ja), "b": string(jb), "field": field}
		if ea != nil || eb != nil {
			run.Violate(Violation{Kind: "oracle", Clause: "key_total", Input: in, Detail: fmt.Sprintf("HashTriggerInput failed: %v %v", ea, eb)}, "")
			continue
		}
		if ha != ha2 {
			run.Violate(Violation{Kind: "oracle", Clause: "key_deterministic", Input: in, Detail: "the same input hashed differently"}, "")
		}
		if !reflect.DeepEqual(oa, ob) && ha == hb {
			run.Violate(Violation{Kind: "oracle", Clause: "key_injective", Input: in,
				Detail: fmt.Sprintf("two subscriptions whose upstream requests differ in %s get the same trigger key: they would share one upstream subscription", field)}, "")
		}
	}
}
