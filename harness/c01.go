package main

// C01 — federated execution equals monolithic execution of the supergraph.
//
// For each layout (supergraph + federated subgraphs with keys, requires, provides, shared value types, interfaces,
// unions), each generated universe and each generated valid operation with variables: the real engine — planner,
// loader, renderer — is run against semantic subgraphs (answers computed by the Lean reference executor over the
// subgraph schema) and its `data` must equal what the Lean reference executor returns for the supergraph; errors are
// reported on one side iff on the other; planning never fails; every subgraph request parses and only selects fields
// the subgraph's schema has.

import (
	"encoding/json"
	"fmt"
	"math/rand"
	"os"
	"strings"
	"sync"
)

func init() { props["C01"] = runC01 }

// ---- layout L1 -----------------------------------------------------------------------------------------------------

const fedL1Super = `
type Query {
  accounts: [Account]
  me: User
  user(id: ID!): User
  topProducts(first: Int = 2): [Product]
  search(term: String!): [SearchResult]
  product(upc: ID!): Product
}
interface Account { id: ID! name: String address: Address fullName: String }
type User implements Account { id: ID! name: String address: Address fullName: String username: String reviews(first: Int = 2): [Review] }
type Admin implements Account { id: ID! name: String address: Address fullName: String title: String level: Int }
type Address { street: String country: Country }
type Country { code: ID! name: String }
type Product { upc: ID! name: String price: Int weight: Int inStock: Boolean shippingEstimate: String deliveryNote: String reviews: [Review] }
type Review { id: ID! body: String author: User product: Product rating: Int }
union SearchResult = Product | User | Review
`

var fedL1Subs = []*fedSubgraph{
	{Name: "accounts", SDL: `
type Query { accounts: [Account] me: User user(id: ID!): User }
interface Account { id: ID! name: String address: Address fullName: String }
type User implements Account @key(fields: "id") { id: ID! name: String address: Address fullName: String username: String }
type Admin implements Account @key(fields: "id") { id: ID! name: String address: Address title: String @external fullName: String @requires(fields: "title") }
type Address { street: String country: Country }
type Country @key(fields: "code") { code: ID! }
`},
	{Name: "hr", SDL: `
type Admin @key(fields: "id") { id: ID! title: String level: Int }
`},
	{Name: "geo", SDL: `
type Country @key(fields: "code") { code: ID! name: String }
`},
	{Name: "products", SDL: `
type Query { topProducts(first: Int = 2): [Product] product(upc: ID!): Product search(term: String!): [SearchResult] }
type Product @key(fields: "upc") { upc: ID! name: String price: Int weight: Int }
type User @key(fields: "id") { id: ID! }
type Review @key(fields: "id") { id: ID! }
union SearchResult = Product | User | Review
`},
	{Name: "inventory", SDL: `
type Product @key(fields: "upc") { upc: ID! price: Int @external weight: Int @external inStock: Boolean shippingEstimate: String @requires(fields: "price weight") }
`},
	{Name: "shipping", SDL: `
type Product @key(fields: "upc") { upc: ID! shippingEstimate: String @external deliveryNote: String @requires(fields: "shippingEstimate") }
`},
	{Name: "reviews", SDL: `
type Review @key(fields: "id") { id: ID! body: String author: User @provides(fields: "username") product: Product rating: Int }
type User @key(fields: "id") { id: ID! username: String @external reviews(first: Int = 2): [Review] }
type Product @key(fields: "upc") { upc: ID! reviews: [Review] }
`},
}

func fedL1Universe(r *rand.Rand) *fedUniverse {
	u := &fedUniverse{}
	root := u.add("Query", map[string]any{})
	nCountries := 1 + r.Intn(3)
	var countries []int
	for i := 0; i < nCountries; i++ {
		f := map[string]any{"code": fvS(fmt.Sprintf("C%d", i)), "name": fvS(fmt.Sprintf("Country %d", i))}
		if r.Intn(6) == 0 {
			f["name"] = fvN()
		}
		countries = append(countries, u.add("Country", f))
	}
	addr := func() map[string]any {
		if r.Intn(6) == 0 {
			return fvN()
		}
		c := any(fvN())
		if r.Intn(5) != 0 {
			c = fvR(countries[r.Intn(len(countries))])
		}
		return fvR(u.add("Address", map[string]any{"street": fvS(fmt.Sprintf("street %d", r.Intn(9))), "country": c}))
	}
	var users, admins, products, reviews []int
	for i := 0; i < 1+r.Intn(3); i++ {
		f := map[string]any{"id": fvS(fmt.Sprintf("u%d", i)), "name": fvS(fmt.Sprintf("User %d", i)), "address": addr(),
			"username": fvS(fmt.Sprintf("user%d", i)), "fullName": fvS(fmt.Sprintf("Full User %d", i)), "tag": fvS(pick(r, []string{"a", "b"})), "reviews": fvL()}
		if r.Intn(7) == 0 {
			f["name"] = fvN()
		}
		users = append(users, u.add("User", f))
	}
	for i := 0; i < r.Intn(3); i++ {
		f := map[string]any{"id": fvS(fmt.Sprintf("a%d", i)), "name": fvS(fmt.Sprintf("Admin %d", i)), "address": addr(),
			"title": fvS(pick(r, []string{"Dr.", "Prof.", "Sir"})), "level": fvS(json.Number(fmt.Sprint(r.Intn(5)))), "fullName": fvC("title")}
		if r.Intn(6) == 0 {
			f["title"] = fvN()
		}
		admins = append(admins, u.add("Admin", f))
	}
	for i := 0; i < 1+r.Intn(3); i++ {
		f := map[string]any{"upc": fvS(fmt.Sprintf("p%d", i)), "name": fvS(fmt.Sprintf("Product %d", i)), "price": fvS(json.Number(fmt.Sprint(10 * (i + 1)))),
			"weight": fvS(json.Number(fmt.Sprint(100 + i))), "inStock": fvS(r.Intn(2) == 0), "shippingEstimate": fvC("price", "weight"), "deliveryNote": fvC("shippingEstimate"), "tag": fvS(pick(r, []string{"a", "b"})), "reviews": fvL()}
		if r.Intn(7) == 0 {
			f["weight"] = fvN()
		}
		products = append(products, u.add("Product", f))
	}
	for i := 0; i < r.Intn(5); i++ {
		au := users[r.Intn(len(users))]
		pr := products[r.Intn(len(products))]
		f := map[string]any{"id": fvS(fmt.Sprintf("r%d", i)), "body": fvS(fmt.Sprintf("review %d", i)), "author": fvR(au), "product": fvR(pr),
			"rating": fvS(json.Number(fmt.Sprint(1 + r.Intn(5)))), "tag": fvS(pick(r, []string{"a", "b"}))}
		if r.Intn(8) == 0 {
			f["author"] = fvN()
		}
		rv := u.add("Review", f)
		reviews = append(reviews, rv)
		u.Nodes[au].Fields["reviews"] = fvL(append(u.Nodes[au].Fields["reviews"].(map[string]any)["l"].([]any), fvR(rv))...)
		u.Nodes[pr].Fields["reviews"] = fvL(append(u.Nodes[pr].Fields["reviews"].(map[string]any)["l"].([]any), fvR(rv))...)
	}
	refs := func(xs []int) []any {
		out := []any{}
		for _, x := range xs {
			out = append(out, fvR(x))
		}
		return out
	}
	accounts := append(refs(users), refs(admins)...)
	r.Shuffle(len(accounts), func(i, j int) { accounts[i], accounts[j] = accounts[j], accounts[i] })
	if r.Intn(6) == 0 {
		accounts = append(accounts, fvN())
	}
	u.Nodes[root].Fields["accounts"] = fvL(accounts...)
	u.Nodes[root].Fields["me"] = fvR(users[0])
	u.Nodes[root].Fields["user"] = fvL(refs(users)...)
	u.Nodes[root].Fields["product"] = fvL(refs(products)...)
	u.Nodes[root].Fields["topProducts"] = fvL(refs(products)...)
	all := append(append(refs(products), refs(users)...), refs(reviews)...)
	u.Nodes[root].Fields["search"] = fvL(all...)
	// (the mutation fields of layout L1M, selected by their key argument; never selected under L1)
	u.Nodes[root].Fields["setPrice"] = fvL(refs(products)...)
	u.Nodes[root].Fields["touchProduct"] = fvL(refs(products)...)
	u.Nodes[root].Fields["renameUser"] = fvL(refs(users)...)
	u.Nodes[root].Fields["addReview"] = fvL(refs(reviews)...)
	// (the subscription fields of layout L1S: the entity an event of the source is about, selected by its key argument)
	u.Nodes[root].Fields["productUpdated"] = fvL(refs(products)...)
	u.Nodes[root].Fields["userChanged"] = fvL(refs(users)...)
	u.Nodes[root].Fields["reviewAdded"] = fvL(refs(reviews)...)
	return u
}

var fedLayouts = map[string]*fedLayout{}
var fedLayoutsOnce sync.Once
var fedLayoutsErr error

func fedGetLayouts() (map[string]*fedLayout, error) {
	fedLayoutsOnce.Do(func() {
		l1 := &fedLayout{Name: "L1", Super: fedL1Super, Subs: fedL1Subs}
		if err := l1.prepare(); err != nil {
			fedLayoutsErr = err
			return
		}
		fedLayouts["L1"] = l1
	})
	return fedLayouts, fedLayoutsErr
}

// ---- operation generator -----------------------------------------------------------------------------------------------

type fedOpGen struct {
	r      *rand.Rand
	s      *fedSchema
	vars   map[string]any // provided variables
	decls  []string       // variable declarations
	frags  []string       // named fragment definitions
	nfrag  int
	nvar   int
	nalias int
	feats  map[string]bool
	budget int
	// @defer generation (C10): probability 1/deferEvery per selection set; 0 = never
	deferEvery int
	ndefer     int
	// C03 extras: explicit null for a variable that has a default; interface selections wrapped in `... on Iface`
	normExtras bool
}

// deferDirective: a fresh @defer directive text — plain, labelled, or with an `if` (literal true or a variable)
func (g *fedOpGen) deferDirective() string {
	g.ndefer++
	switch g.r.Intn(6) {
	case 0:
		g.feats["defer:label"] = true
		return fmt.Sprintf(`@defer(label: "L%d")`, g.ndefer)
	case 1:
		name := fmt.Sprintf("d%d", g.ndefer)
		g.decls = append(g.decls, "$"+name+": Boolean!")
		b := g.r.Intn(3) != 0
		g.vars[name] = b
		g.feats[fmt.Sprintf("defer:ifVariable=%v", b)] = true
		return "@defer(if: $" + name + ")"
	case 2:
		g.feats["defer:ifTrue"] = true
		return fmt.Sprintf(`@defer(if: true, label: "L%d")`, g.ndefer)
	}
	return "@defer"
}

// wrapDefer moves a random sub-list of the selections into one or two deferred inline fragments
func (g *fedOpGen) wrapDefer(t *fedType, parts []string, depth int) []string {
	if g.deferEvery == 0 || len(parts) == 0 || g.r.Intn(g.deferEvery) != 0 {
		return parts
	}
	g.r.Shuffle(len(parts), func(i, j int) { parts[i], parts[j] = parts[j], parts[i] })
	k := g.r.Intn(len(parts) + 1) // parts[k:] are deferred (k == 0: everything)
	keep, rest := append([]string{}, parts[:k]...), parts[k:]
	if len(rest) == 0 {
		return parts
	}
	cond := ""
	if g.r.Intn(3) == 0 && t.Kind != "UNION" {
		cond = "on " + t.Name + " "
		g.feats["defer:typeCondition"] = true
	}
	if len(rest) > 1 && g.r.Intn(3) == 0 {
		// two sibling defers
		m := 1 + g.r.Intn(len(rest)-1)
		keep = append(keep, "... "+cond+g.deferDirective()+" { "+strings.Join(rest[:m], " ")+" }")
		keep = append(keep, "... "+g.deferDirective()+" { "+strings.Join(rest[m:], " ")+" }")
		g.feats["defer:siblings"] = true
	} else {
		keep = append(keep, "... "+cond+g.deferDirective()+" { "+strings.Join(rest, " ")+" }")
	}
	if depth == 0 {
		g.feats["defer:atRoot"] = true
	}
	if len(keep) == 1 || (len(keep) == 2 && k == 0) {
		g.feats["defer:wholeSelection"] = true
	}
	return keep
}

func (g *fedOpGen) varName() string {
	n := g.nvar
	g.nvar++
	if g.normExtras && n < 6 && g.r.Intn(2) == 0 {
		name := string(rune('a' + n)) // the names variable extraction itself would choose
		for _, d := range g.decls {
			if strings.HasPrefix(d, "$"+name+":") {
				return fmt.Sprintf("v%d", n)
			}
		}
		return name
	}
	return fmt.Sprintf("v%d", n)
}

func (g *fedOpGen) argValue(argName, argType string, universeHint func(string) string) string {
	var lit string
	var val any
	switch argName {
	case "first":
		n := g.r.Intn(4)
		lit, val = fmt.Sprint(n), n
	case "term":
		t := pick(g.r, []string{"a", "b", "zzz"})
		lit, val = fmt.Sprintf("%q", t), t
	default:
		v := universeHint(argName)
		if g.normExtras && g.r.Intn(5) == 0 {
			v = pick(g.r, []string{"a", "b"}) // collides with the literals of `term`
		}
		lit, val = fmt.Sprintf("%q", v), v
	}
	switch g.r.Intn(4) {
	case 0: // variable, provided
		name := g.varName()
		g.decls = append(g.decls, "$"+name+": "+argType)
		g.vars[name] = val
		g.feats["arg:variable"] = true
		return "$" + name
	case 1: // variable with a default, not provided
		name := g.varName()
		g.decls = append(g.decls, "$"+name+": "+argType+" = "+lit)
		g.feats["arg:variableDefault"] = true
		if g.normExtras && !strings.HasSuffix(argType, "!") && g.r.Intn(3) == 0 {
			g.vars[name] = nil // an explicit null wins over the default
			g.feats["arg:variableDefaultButNull"] = true
		}
		return "$" + name
	case 2: // a nullable variable the client declares but does not provide: the argument stays absent (schema default applies)
		if !strings.HasSuffix(argType, "!") {
			name := g.varName()
			g.decls = append(g.decls, "$"+name+": "+argType)
			if g.r.Intn(3) == 0 {
				g.vars[name] = nil // … or provides an explicit null
				g.feats["arg:variableNull"] = true
			} else {
				g.feats["arg:variableOmitted"] = true
			}
			return "$" + name
		}
	}
	return lit
}

func (g *fedOpGen) selection(typeName string, depth int, hint func(string) string) string {
	t := g.s.typ(typeName)
	if t == nil {
		return ""
	}
	var parts []string
	if t.Kind == "UNION" {
		parts = append(parts, "__typename")
		for _, p := range t.Possible {
			if g.r.Intn(3) != 0 {
				dir := ""
				if g.deferEvery != 0 && g.r.Intn(g.deferEvery) == 0 {
					dir = g.deferDirective() + " "
					g.feats["defer:onUnionMember"] = true
				}
				parts = append(parts, "... on "+p+" "+dir+g.selection(p, depth+1, hint))
				g.feats["sel:unionFragment"] = true
			}
		}
		return "{ " + strings.Join(parts, " ") + " }"
	}
	fields := append([]*fedField{}, t.Fields...)
	g.r.Shuffle(len(fields), func(i, j int) { fields[i], fields[j] = fields[j], fields[i] })
	n := 1 + g.r.Intn(len(fields))
	if depth > 3 {
		n = 1 + g.r.Intn(2)
	}
	for _, f := range fields[:n] {
		if g.budget <= 0 {
			break
		}
		g.budget--
		leaf := g.s.typ(fedNamed(f.Type))
		composite := leaf != nil && (leaf.Kind == "OBJECT" || leaf.Kind == "INTERFACE" || leaf.Kind == "UNION")
		if composite && depth > 5 {
			continue
		}
		p := f.Name
		if g.r.Intn(8) == 0 || len(f.ArgNames) > 0 {
			// (fields with arguments always get a fresh alias: the same field may be selected again with other
			// arguments in a fragment)
			p = fmt.Sprintf("al%d: %s", g.nalias, f.Name)
			g.nalias++
			g.feats["sel:alias"] = true
		}
		if len(f.ArgNames) > 0 {
			var as []string
			for _, a := range f.ArgNames {
				required := strings.HasSuffix(f.ArgTypes[a], "!")
				if !required && g.r.Intn(3) == 0 {
					g.feats["arg:omitted"] = true
					continue // rely on the schema default / absence
				}
				as = append(as, a+": "+g.argValue(a, f.ArgTypes[a], hint))
			}
			if len(as) > 0 {
				p += "(" + strings.Join(as, ", ") + ")"
			}
		}
		if g.r.Intn(12) == 0 {
			b := g.r.Intn(2) == 0
			name := fmt.Sprintf("v%d", g.nvar)
			g.nvar++
			g.decls = append(g.decls, "$"+name+": Boolean!")
			g.vars[name] = b
			p += " @" + pick(g.r, []string{"skip", "include"}) + "(if: $" + name + ")"
			g.feats["sel:skipInclude"] = true
		}
		if composite {
			p += " " + g.selection(leaf.Name, depth+1, hint)
		}
		parts = append(parts, p)
	}
	if g.normExtras && t.Kind == "OBJECT" && g.r.Intn(6) == 0 {
		for _, it := range g.s.Types {
			if it.Kind == "INTERFACE" && containsStr(it.Possible, t.Name) && len(it.Possible) > 1 {
				var nested []string
				for _, pt := range it.Possible {
					nested = append(nested, "... on "+pt+" { __typename id }")
				}
				parts = append(parts, "... on "+it.Name+" { "+strings.Join(nested, " ")+" }")
				g.feats["sel:interfaceFragmentInObject"] = true
				break
			}
		}
	}
	if t.Kind == "INTERFACE" {
		for _, pt := range t.Possible {
			if g.r.Intn(2) == 0 {
				dir := ""
				if g.deferEvery != 0 && g.r.Intn(g.deferEvery) == 0 {
					dir = g.deferDirective() + " "
					g.feats["defer:onInterfaceMember"] = true
				}
				parts = append(parts, "... on "+pt+" "+dir+g.selection(pt, depth+1, hint))
				g.feats["sel:interfaceFragment"] = true
			}
		}
	}
	if g.r.Intn(6) == 0 {
		parts = append(parts, "__typename")
	}
	if len(parts) == 0 {
		parts = append(parts, "__typename")
	}
	if t.Kind == "OBJECT" && g.r.Intn(10) == 0 && depth > 0 {
		// move the selection into a named fragment
		name := fmt.Sprintf("F%d", g.nfrag)
		g.nfrag++
		g.frags = append(g.frags, "fragment "+name+" on "+t.Name+" { "+strings.Join(parts, " ")+" }")
		g.feats["sel:namedFragment"] = true
		if g.deferEvery != 0 && g.r.Intn(2) == 0 {
			g.feats["defer:onSpread"] = true
			return "{ __typename ..." + name + " " + g.deferDirective() + " }"
		}
		return "{ ..." + name + " }"
	}
	parts = g.wrapDefer(t, parts, depth)
	if g.normExtras && t.Kind == "INTERFACE" && g.r.Intn(3) == 0 {
		g.feats["sel:interfaceWrapped"] = true
		return "{ ... on " + t.Name + " { " + strings.Join(parts, " ") + " } }"
	}
	return "{ " + strings.Join(parts, " ") + " }"
}

func fedGenOperation(r *rand.Rand, s *fedSchema, u *fedUniverse) (string, []byte, map[string]bool) {
	return fedGenOperationDefer(r, s, u, 0)
}

func fedGenOperationDefer(r *rand.Rand, s *fedSchema, u *fedUniverse, deferEvery int) (string, []byte, map[string]bool) {
	return fedGenOperationX(r, s, u, deferEvery, false)
}

func fedGenOperationX(r *rand.Rand, s *fedSchema, u *fedUniverse, deferEvery int, normExtras bool) (string, []byte, map[string]bool) {
	g := &fedOpGen{r: r, s: s, vars: map[string]any{}, feats: map[string]bool{}, budget: 14 + r.Intn(20), deferEvery: deferEvery, normExtras: normExtras}
	hint := func(arg string) string {
		// an existing key value most of the time
		var cands []string
		for _, n := range u.Nodes {
			if v, ok := n.Fields[arg].(map[string]any); ok {
				if sv, ok := v["s"].(string); ok {
					cands = append(cands, sv)
				}
			}
		}
		if len(cands) == 0 || r.Intn(6) == 0 {
			return "nope"
		}
		return cands[r.Intn(len(cands))]
	}
	q := s.typ(s.Query)
	roots := append([]*fedField{}, q.Fields...)
	r.Shuffle(len(roots), func(i, j int) { roots[i], roots[j] = roots[j], roots[i] })
	var parts []string
	for _, f := range roots[:1+r.Intn(2)] {
		p := f.Name
		if len(f.ArgNames) > 0 {
			var as []string
			for _, a := range f.ArgNames {
				required := strings.HasSuffix(f.ArgTypes[a], "!")
				if !required && r.Intn(3) == 0 {
					continue
				}
				as = append(as, a+": "+g.argValue(a, f.ArgTypes[a], hint))
			}
			if len(as) > 0 {
				p += "(" + strings.Join(as, ", ") + ")"
			}
		}
		parts = append(parts, p+" "+g.selection(fedNamed(f.Type), 1, hint))
	}
	op := "query Q"
	if len(g.decls) > 0 {
		op += "(" + strings.Join(g.decls, ", ") + ")"
	}
	parts = g.wrapDefer(s.typ(s.Query), parts, 0)
	op += " { " + strings.Join(parts, " ") + " }"
	if len(g.frags) > 0 {
		op += " " + strings.Join(g.frags, " ")
	}
	vars, _ := json.Marshal(g.vars)
	return op, vars, g.feats
}

// ---- checks on the subgraph requests ---------------------------------------------------------------------------------------

// every selected field exists on its parent type in the subgraph's schema
func fedRequestOwned(sg *fedSubgraph, query string) string {
	op, err := fedOpJSON(query, "")
	if err != nil {
		return "does not parse: " + err.Error()
	}
	var walk func(typeName string, sels []any) string
	walk = func(typeName string, sels []any) string {
		t := sg.lean.typ(typeName)
		for _, s := range sels {
			m := s.(map[string]any)
			switch m["t"] {
			case "field":
				name := m["name"].(string)
				if name == "__typename" {
					continue
				}
				if t == nil {
					return fmt.Sprintf("selection on unknown type %s", typeName)
				}
				var fd *fedField
				for _, f := range t.Fields {
					if f.Name == name {
						fd = f
					}
				}
				if fd == nil {
					return fmt.Sprintf("field %s.%s does not exist in subgraph %s", typeName, name, sg.Name)
				}
				if sub, _ := m["sels"].([]any); len(sub) > 0 {
					if e := walk(fedNamed(fd.Type), sub); e != "" {
						return e
					}
				}
			case "inline":
				cond, _ := m["cond"].(string)
				next := typeName
				if cond != "" {
					next = cond
				}
				if e := walk(next, m["sels"].([]any)); e != "" {
					return e
				}
			}
		}
		return ""
	}
	root := sg.lean.Query
	if op["kind"] == "mutation" {
		root = sg.lean.Mutation
	}
	return walk(root, op["sels"].([]any))
}

// ---- the check ---------------------------------------------------------------------------------------------------------

type fedCase struct {
	Layout    string       `json:"layout"`
	Universe  *fedUniverse `json:"universe"`
	Operation string       `json:"operation"`
	Variables string       `json:"variables"`
}

var fedEngineCache sync.Map // key -> *fedEngine (guarded by its own mutex for sequential use)
var fedEngineLocks sync.Map

func fedCachedEngine(l *fedLayout, key string, opts fedEngineOpts) (*fedEngine, *sync.Mutex, error) {
	lk, _ := fedEngineLocks.LoadOrStore(key, &sync.Mutex{})
	mu := lk.(*sync.Mutex)
	mu.Lock()
	if e, ok := fedEngineCache.Load(key); ok {
		return e.(*fedEngine), mu, nil
	}
	e, err := fedNewEngine(l, opts)
	if err != nil {
		mu.Unlock()
		return nil, nil, err
	}
	fedEngineCache.Store(key, e)
	return e, mu, nil
}

func c01Check(run *Run, c *fedCase, worker int) {
	layouts, err := fedGetLayouts()
	if err != nil {
		run.Violate(Violation{Kind: "oracle", Clause: "layout_builds", Input: c, Detail: err.Error()}, "")
		return
	}
	l := layouts[c.Layout]
	in := map[string]any{"case": c}
	eng, mu, err := fedCachedEngine(l, fmt.Sprintf("%s/default/%d", l.Name, worker), fedEngineOpts{})
	if err != nil {
		run.Violate(Violation{Kind: "oracle", Clause: "engine_builds", Input: in, Detail: err.Error()}, "")
		return
	}
	defer mu.Unlock()
	sess := &fedSession{layout: l, universe: c.Universe, pool: run.Pool}
	resp := eng.run(sess, c.Operation, "Q", []byte(c.Variables))
	refData, refErrs, err := fedReference(run.Pool, l, c.Universe, c.Operation, "Q", []byte(c.Variables))
	if err != nil {
		run.Violate(Violation{Kind: "correspondence", Clause: "driver", Input: in, Detail: err.Error()}, "")
		return
	}
	for _, p := range resp.Probs {
		run.Violate(Violation{Kind: "oracle", Clause: "subgraph_request_valid", Input: in, Impl: resp.Log, Detail: p}, "")
	}
	if resp.Err != nil {
		run.Violate(Violation{Kind: "oracle", Clause: "planning_never_fails", Input: in, Impl: resp.Raw,
			Detail: "Execute returned an error for a valid operation: " + resp.Err.Error()}, "")
		return
	}
	for _, ex := range resp.Log {
		for _, sg := range l.Subs {
			if sg.Name == ex.Subgraph {
				if e := fedRequestOwned(sg, ex.Query); e != "" {
					run.Violate(Violation{Kind: "oracle", Clause: "requests_only_owned", Input: in, Impl: ex, Detail: e}, "")
				}
			}
		}
	}
	if !fedJSONEqual(resp.Data, refData) {
		run.Violate(Violation{Kind: "oracle", Clause: "data_equals_monolith", Input: in, Impl: resp.Raw, Model: refData,
			Detail: fmt.Sprintf("gateway data %s, a single server returns %s | requests=%s", truncate(jsonStr(resp.Data), 700), truncate(jsonStr(refData), 700), truncate(jsonStr(resp.Log), 1500))}, "")
		return
	}
	if (len(resp.Errors) == 0) != (len(refErrs) == 0) {
		run.Violate(Violation{Kind: "oracle", Clause: "errors_iff_monolith", Input: in, Impl: resp.Raw, Model: refErrs,
			Detail: fmt.Sprintf("gateway errors %s, a single server reports %v", truncate(jsonStr(resp.Errors), 500), refErrs)}, "")
	}
	run.mu.Lock()
	run.TracesVsImpl++
	run.mu.Unlock()
	if len(resp.Log) >= 2 {
		run.Feat("fetches>=2")
	}
	run.Feat(fmt.Sprintf("fetches:%d", min(len(resp.Log), 6)))
}

func runC01(run *Run, replay string) Spec {
	spec := Spec{
		Level: "translation_validation",
		Rule:  "layout L1 (6 subgraphs: entity interface implementations, @requires across subgraphs, @provides, value types, nested entity jumps, union of entities, field arguments with defaults) × generated universes (nulls in nullable and non-null-relevant positions, missing entities, empty lists) × generated valid operations (aliases, inline and named fragments, abstract-type fragments, skip/include, literals, provided and defaulted variables, omitted optional arguments): the real engine with semantic subgraphs (answers by the Lean reference executor over the subgraph schema) vs the Lean reference executor over the supergraph: data equal, errors iff, planning never fails, every subgraph request parses and selects only fields of the subgraph's schema. non-trivial = at least two subgraph requests; distinct = distinct (universe, operation, variables)",
		TrustedBase: []string{"Lean 4 kernel for the theorems about the executor's total parts", "the Lean reference executor GqlVerif.Gql.Exec (GraphQL spec section 6) as the meaning of operations, for the supergraph and for each subgraph",
			"the harness' derivation of planner metadata and schema descriptions from the SDLs, its universes and operation generator; the repo's own parser for turning operation texts into the executor's AST"},
		Assumptions: []string{"the planner is validated per generated case, not proved", "one hand-written layout family; key order of response objects is not compared", "error content is not compared, only presence"},
	}
	if replay != "" {
		if b, err := os.ReadFile(replay); err == nil {
			var f struct {
				Violation struct {
					Input struct {
						Case *fedCase `json:"case"`
					} `json:"input"`
				} `json:"violation"`
			}
			if json.Unmarshal(b, &f) == nil && f.Violation.Input.Case != nil {
				c01Check(run, f.Violation.Input.Case, 0)
				run.Count("replay")
			}
		}
		return spec
	}
	layouts, err := fedGetLayouts()
	if err != nil {
		run.Violate(Violation{Kind: "oracle", Clause: "layout_builds", Detail: err.Error()}, "")
		return spec
	}
	n := 600
	if run.Tier == "thorough" {
		n = 20000
	}
	workers := 8
	if os.Getenv("VERIF_WORKERS") != "" {
		fmt.Sscan(os.Getenv("VERIF_WORKERS"), &workers)
	}
	var wg sync.WaitGroup
	ch := make(chan int, 64)
	for w := 0; w < workers; w++ {
		wg.Add(1)
		go func(w int) {
			defer wg.Done()
			for k := range ch {
				if run.NViolations() >= 6 {
					continue
				}
				r := subRng(run.Seed, k)
				l := layouts["L1"]
				u := fedL1Universe(r)
				for j := 0; j < 4; j++ {
					op, vars, feats := fedGenOperation(r, l.super, u)
					c := &fedCase{Layout: l.Name, Universe: u, Operation: op, Variables: string(vars)}
					c01Check(run, c, w)
					run.Count(op + string(vars) + fmt.Sprint(k))
					for f := range feats {
						run.Feat(f)
					}
					if k < 2 && j == 0 {
						run.Sample(map[string]any{"operation": op, "variables": string(vars)})
					}
				}
			}
		}(w)
	}
	for k := 0; k < n; k++ {
		ch <- k
	}
	close(ch)
	wg.Wait()
	return spec
}
