package main

import (
	"bytes"
	"encoding/json"
	"fmt"
	"math/rand"
	"os"
	"path/filepath"
	"reflect"
	"strings"

	"github.com/wundergraph/graphql-go-tools/v2/pkg/ast"
	"github.com/wundergraph/graphql-go-tools/v2/pkg/astparser"
	"github.com/wundergraph/graphql-go-tools/v2/pkg/astprinter"
	"github.com/wundergraph/graphql-go-tools/v2/pkg/lexer"
	"github.com/wundergraph/graphql-go-tools/v2/pkg/lexer/keyword"
	"github.com/wundergraph/graphql-go-tools/v2/pkg/lexer/position"
	"github.com/wundergraph/graphql-go-tools/v2/pkg/operationreport"
)

func init() { props["C05"] = runC05 }

// ---- implementation side --------------------------------------------------------------------

func c05ImplLex(src []byte) (toks [][3]int, panicked any) {
	defer func() {
		if p := recover(); p != nil {
			panicked = p
		}
	}()
	in := &ast.Input{}
	in.ResetInputBytes(src)
	lx := &lexer.Lexer{}
	lx.SetInput(in)
	toks = [][3]int{}
	for i := 0; i <= len(src)+1; i++ {
		t := lx.Read()
		if t.Keyword == keyword.EOF {
			return
		}
		toks = append(toks, [3]int{int(t.Keyword), int(t.Literal.Start), int(t.Literal.End)})
	}
	panicked = "lexer did not reach EOF within len+2 reads (no progress)"
	return
}

type c05Lim struct {
	Verdict string `json:"verdict"`
	Depth   int    `json:"depth"`
	Fields  int    `json:"fields"`
}

func c05ImplLimits(src []byte, maxDepth, maxFields int) (out c05Lim, panicked any) {
	defer func() {
		if p := recover(); p != nil {
			panicked = p
		}
	}()
	in := &ast.Input{}
	in.ResetInputBytes(src)
	tk := astparser.NewTokenizer()
	st, err := tk.TokenizeWithLimits(astparser.TokenizerLimits{MaxDepth: maxDepth, MaxFields: maxFields}, in)
	out.Depth, out.Fields = st.TotalDepth, st.TotalFields
	switch err.(type) {
	case nil:
		out.Verdict = "ok"
	case astparser.ErrDepthLimitExceeded:
		out.Verdict = "depth"
	case astparser.ErrFieldsLimitExceeded:
		out.Verdict = "fields"
	default:
		out.Verdict = "other:" + err.Error()
	}
	return
}

var posType = reflect.TypeOf(position.Position{})
var bsrType = reflect.TypeOf(ast.ByteSliceReference{})

// c05Shape: structural dump of a parsed document (every node array, names resolved to bytes, positions dropped).
// refsOK=false when a byte-slice reference lies outside the input.
func c05Shape(doc *ast.Document) (shape string, refsOK bool, badRef string) {
	var sb strings.Builder
	refsOK = true
	n := uint32(len(doc.Input.RawBytes))
	var dump func(v reflect.Value)
	dump = func(v reflect.Value) {
		switch v.Kind() {
		case reflect.Struct:
			if v.Type() == posType {
				return
			}
			if v.Type() == bsrType {
				r := v.Interface().(ast.ByteSliceReference)
				if r.Start > r.End || r.End > n {
					if refsOK {
						badRef = fmt.Sprintf("[%d,%d) outside input of %d bytes", r.Start, r.End, n)
					}
					refsOK = false
					sb.WriteString("<OOB>")
					return
				}
				sb.WriteString(fmt.Sprintf("%q", doc.Input.RawBytes[r.Start:r.End]))
				return
			}
			// block strings (values and descriptions) are compared by their GraphQL value
			// (spec BlockStringValue), not by raw bytes: the printer re-indents them
			if c := v.FieldByName("Content"); c.IsValid() && c.Type() == bsrType {
				blk := v.FieldByName("BlockString")
				if !blk.IsValid() {
					blk = v.FieldByName("IsBlockString")
				}
				if blk.IsValid() && blk.Kind() == reflect.Bool && blk.Bool() {
					r := c.Interface().(ast.ByteSliceReference)
					if r.Start > r.End || r.End > n {
						if refsOK {
							badRef = fmt.Sprintf("[%d,%d) outside input of %d bytes", r.Start, r.End, n)
						}
						refsOK = false
						sb.WriteString("<OOB>")
						return
					}
					sb.WriteString(fmt.Sprintf("block%q", specBlockStringValue(string(doc.Input.RawBytes[r.Start:r.End]))))
					return
				}
			}
			sb.WriteByte('{')
			for i := 0; i < v.NumField(); i++ {
				f := v.Type().Field(i)
				if !f.IsExported() {
					continue
				}
				sb.WriteString(f.Name)
				sb.WriteByte(':')
				dump(v.Field(i))
				sb.WriteByte(' ')
			}
			sb.WriteByte('}')
		case reflect.Slice, reflect.Array:
			sb.WriteByte('[')
			for i := 0; i < v.Len(); i++ {
				dump(v.Index(i))
				sb.WriteByte(',')
			}
			sb.WriteByte(']')
		case reflect.Int, reflect.Int32, reflect.Int64, reflect.Uint32, reflect.Uint8, reflect.Uint64:
			sb.WriteString(fmt.Sprint(v.Interface()))
		case reflect.Bool:
			sb.WriteString(fmt.Sprint(v.Bool()))
		case reflect.String:
			sb.WriteString(fmt.Sprintf("%q", v.String()))
		default:
			// maps, funcs, pointers: not part of the parsed structure
		}
	}
	dv := reflect.ValueOf(doc).Elem()
	for i := 0; i < dv.NumField(); i++ {
		f := dv.Type().Field(i)
		switch f.Name {
		case "Input", "Refs", "RefIndex", "Index", "OnCopyField", "OnMergeFields", "BooleanValues":
			continue
		}
		if dv.Field(i).Kind() != reflect.Slice || dv.Field(i).Len() == 0 {
			continue
		}
		sb.WriteString(f.Name)
		sb.WriteByte('=')
		dump(dv.Field(i))
		sb.WriteByte('\n')
	}
	return sb.String(), refsOK, badRef
}

// real selection depth (max nesting of selection sets) and field count of a parsed document
func c05Measure(doc *ast.Document) (depth, fields int) {
	var walk func(set int, d int)
	walk = func(set int, d int) {
		if d > depth {
			depth = d
		}
		if d > 100000 {
			return
		}
		for _, sref := range doc.SelectionSets[set].SelectionRefs {
			s := doc.Selections[sref]
			switch s.Kind {
			case ast.SelectionKindField:
				if doc.Fields[s.Ref].HasSelections {
					walk(doc.Fields[s.Ref].SelectionSet, d+1)
				}
			case ast.SelectionKindInlineFragment:
				if doc.InlineFragments[s.Ref].HasSelections {
					walk(doc.InlineFragments[s.Ref].SelectionSet, d+1)
				}
			}
		}
	}
	for i := range doc.OperationDefinitions {
		if doc.OperationDefinitions[i].HasSelections {
			walk(doc.OperationDefinitions[i].SelectionSet, 1)
		}
	}
	for i := range doc.FragmentDefinitions {
		if doc.FragmentDefinitions[i].HasSelections {
			walk(doc.FragmentDefinitions[i].SelectionSet, 1)
		}
	}
	return depth, len(doc.Fields)
}

type c05RT struct {
	Parsed   bool
	Panic    any
	Clause   string
	Detail   string
	Print1   string
	Print2   string
	NulInput bool
}

func c05Parse(src []byte) (doc *ast.Document, ok bool) {
	d := ast.NewSmallDocument()
	d.Input.ResetInputBytes(src)
	rep := operationreport.Report{}
	astparser.NewParser().Parse(d, &rep)
	return d, !rep.HasErrors()
}

// c05RoundTrip evaluates the parse/print clauses of the property on the implementation.
func c05RoundTrip(src []byte, indent []byte) (res c05RT) {
	defer func() {
		if p := recover(); p != nil {
			res.Panic = p
			res.Clause = "no_panic"
			res.Detail = fmt.Sprint(p)
		}
	}()
	doc, ok := c05Parse(src)
	if !ok {
		return
	}
	res.Parsed = true
	shape1, refsOK, bad := c05Shape(doc)
	if !refsOK {
		res.Clause, res.Detail = "refs_in_bounds", bad
		return
	}
	var b1 bytes.Buffer
	var err error
	if indent == nil {
		err = astprinter.Print(doc, &b1)
	} else {
		err = astprinter.PrintIndent(doc, indent, &b1)
	}
	if err != nil {
		res.Clause, res.Detail = "print_error", err.Error()
		return
	}
	res.Print1 = b1.String()
	doc2, ok2 := c05Parse(b1.Bytes())
	if !ok2 {
		res.Clause, res.Detail = "print_reparses", "the printed document does not parse"
		return
	}
	shape2, _, _ := c05Shape(doc2)
	var b2 bytes.Buffer
	if indent == nil {
		err = astprinter.Print(doc2, &b2)
	} else {
		err = astprinter.PrintIndent(doc2, indent, &b2)
	}
	res.Print2 = b2.String()
	if err != nil || b2.String() != b1.String() {
		res.Clause, res.Detail = "print_fixpoint", "print(parse(print(d))) != print(d)"
		return
	}
	if shape1 != shape2 {
		res.Clause, res.Detail = "shape_preserved", firstDiff(shape1, shape2)
	}
	return
}

func firstDiff(a, b string) string {
	i := 0
	for i < len(a) && i < len(b) && a[i] == b[i] {
		i++
	}
	lo := max(0, i-60)
	return fmt.Sprintf("at %d: %q vs %q", i, a[lo:min(len(a), i+60)], b[lo:min(len(b), i+60)])
}

// ---- known-finding class guards (narrow, syntactic) -------------------------------------------

// block string whose content has a quote or backslash next to whitespace / at the content edge (findings C05-blockstring)
// a block string token (as the lexer itself delimits it) whose raw text, between the end of the previous token and the start of the
// next one and without its own delimiters, contains a quote or a backslash
func c05HasTrickyBlockString(src []byte) bool {
	toks, p := c05ImplLex(src)
	if p != nil {
		return false
	}
	for k, t := range toks {
		if t[0] != int(keyword.BLOCKSTRING) {
			continue
		}
		from, to := 0, len(src)
		if k > 0 {
			from = toks[k-1][2]
			// the previous literal ends before its closing delimiter
			switch toks[k-1][0] {
			case int(keyword.STRING):
				if from < len(src) && src[from] == '"' {
					from++
				}
			case int(keyword.BLOCKSTRING):
				if bytes.HasPrefix(src[min(from, len(src)):], []byte(`"""`)) {
					from += 3
				}
			}
		}
		if k+1 < len(toks) {
			to = toks[k+1][1]
			switch toks[k+1][0] {
			case int(keyword.STRING):
				if to > 0 && src[to-1] == '"' {
					to--
				}
			case int(keyword.BLOCKSTRING):
				// the next literal starts after its delimiter and the whitespace the lexer trims
				if b := bytes.LastIndex(src[:to], []byte(`"""`)); b >= t[2] {
					to = b
				}
			}
		}
		if from > to || to > len(src) {
			continue
		}
		raw := src[from:to]
		if a := bytes.Index(raw, []byte(`"""`)); a >= 0 {
			raw = raw[a+3:]
		}
		if b := bytes.LastIndex(raw, []byte(`"""`)); b >= 0 {
			raw = raw[:b]
		}
		if bytes.ContainsAny(raw, "\"\\") {
			return true
		}
	}
	return false
}

// ---- generators -------------------------------------------------------------------------------

var c05Soup = []string{"{", "}", "(", ")", "[", "]", ":", "!", "$", "@", "=", "|", "&", "...", ".", "-", "#c\n", "# x", "\n", " ", ",", "\t",
	"query", "mutation", "subscription", "fragment", "on", "type", "schema", "extend", "input", "enum", "union", "interface", "scalar", "directive",
	"implements", "repeatable", "true", "false", "null", "a", "b", "Query", "String", "x1", "_y", "a-b", "1", "0", "12", "1.5", "1e3", "1.5e+7", "1.", "1e", "-1",
	"\"s\"", "\"\"", "\"a\\\"b\"", "\"\"\"", "\"\"\"blk\"\"\"", "\"\"\" x \"\"\"", "\"unterminated", "\\", "\"", "%", "\xc3\xa9", "\x00", "\r\n", "QUERY", "FIELD", "OBJECT"}

func c05GenSoup(r *rand.Rand) []byte {
	var sb bytes.Buffer
	for i, n := 0, 1+r.Intn(14); i < n; i++ {
		sb.WriteString(pick(r, c05Soup))
		if r.Intn(3) == 0 {
			sb.WriteByte(' ')
		}
	}
	return sb.Bytes()
}

func c05GenBytes(r *rand.Rand) []byte {
	n := r.Intn(24)
	b := make([]byte, n)
	for i := range b {
		switch r.Intn(4) {
		case 0:
			b[i] = byte(r.Intn(256))
		default:
			const alphabet = "{}()[]:!$@=|&.-#\" \n\t,\\aeE01+_q\"\"\""
			b[i] = alphabet[r.Intn(len(alphabet))]
		}
	}
	return b
}

type c05Gen struct {
	r     *rand.Rand
	sb    *strings.Builder
	depth int
}

var c05Idents = []string{"a", "b", "user", "id", "name", "query", "mutation", "subscription", "fragment", "on", "type", "true1", "null_", "enum", "input", "x-y", "_z", "Foo", "schema", "extend"}

func (g *c05Gen) name() string { return pick(g.r, c05Idents) }
func (g *c05Gen) w(s string)   { g.sb.WriteString(s) }
func (g *c05Gen) sp() {
	switch g.r.Intn(8) {
	case 0:
		g.w("\n")
	case 1:
		g.w(", ")
	case 2:
		g.w("  ")
	case 3:
		g.w(" #c\n")
	default:
		g.w(" ")
	}
}

func (g *c05Gen) str() {
	r := g.r
	if r.Intn(3) == 0 { // block string
		g.w(`"""`)
		parts := []string{"a", " ", "  ", "\n", "\n  ", "b c", "\\\"\"\"", "\\", "x\"y", "\" ", " \"", "é", "\t", "\\n", "q\"\"r", "\r\n"}
		for i, n := 0, r.Intn(5); i < n; i++ {
			g.w(pick(r, parts))
		}
		g.w(`"""`)
		return
	}
	g.w(`"`)
	parts := []string{"a", " ", "b c", "\\\"", "\\\\", "\\n", "\\u00e9", "\\u{1F600}", "é", "\t", "#", "{", "\\", "x"}
	n := r.Intn(4)
	for i := 0; i < n; i++ {
		p := pick(r, parts)
		if p == "\\" && i == n-1 {
			p = "\\\\"
		}
		g.w(p)
	}
	g.w(`"`)
}

func (g *c05Gen) value(d int, constOnly bool) {
	r := g.r
	k := r.Intn(11)
	if d > 3 && k >= 9 {
		k = 0
	}
	switch k {
	case 0:
		g.w(pick(r, []string{"0", "1", "-1", "42", "-0", "123456789012345678901234567890"}))
	case 1:
		g.w(pick(r, []string{"1.5", "-1.5", "1e3", "1E-3", "1.5e+7", "0.0", "-0.0e0"}))
	case 2:
		g.str()
	case 3:
		g.w(pick(r, []string{"true", "false"}))
	case 4:
		g.w("null")
	case 5:
		g.w(pick(r, []string{"RED", "on", "query", "type", "A_B"}))
	case 6, 7:
		if constOnly {
			g.w("7")
		} else {
			g.w("$" + g.name())
		}
	case 8:
		g.w("[")
		for i, n := 0, r.Intn(4); i < n; i++ {
			if i > 0 {
				g.w(pick(r, []string{",", " ", ", "}))
			}
			g.value(d+1, constOnly)
		}
		g.w("]")
	default:
		g.w("{")
		for i, n := 0, r.Intn(4); i < n; i++ {
			if i > 0 {
				g.w(pick(r, []string{",", " ", ", "}))
			}
			g.w(g.name() + ":")
			if r.Intn(2) == 0 {
				g.w(" ")
			}
			g.value(d+1, constOnly)
		}
		g.w("}")
	}
}

func (g *c05Gen) args(constOnly bool) {
	r := g.r
	if r.Intn(3) != 0 {
		return
	}
	g.w("(")
	for i, n := 0, 1+r.Intn(3); i < n; i++ {
		if i > 0 {
			g.w(pick(r, []string{",", " ", ", "}))
		}
		g.w(g.name() + ": ")
		g.value(0, constOnly)
	}
	g.w(")")
}

func (g *c05Gen) directives(constOnly bool) {
	for i, n := 0, g.r.Intn(5)/3; i < n; i++ {
		g.w(" @" + pick(g.r, []string{"include", "skip", "defer", "d", "on", "deprecated"}))
		g.args(constOnly)
	}
}

func (g *c05Gen) selectionSet(d int) {
	r := g.r
	g.w("{")
	n := 1 + r.Intn(4)
	for i := 0; i < n; i++ {
		g.sp()
		switch k := r.Intn(10); {
		case k < 6 || d > 5:
			if r.Intn(4) == 0 {
				g.w(g.name() + ": ")
			}
			g.w(g.name())
			g.args(false)
			g.directives(false)
			if r.Intn(3) == 0 && d <= 5 {
				g.w(" ")
				g.selectionSet(d + 1)
			}
		case k < 8:
			g.w("...")
			if r.Intn(2) == 0 {
				g.w(" on " + pick(r, []string{"User", "Node", "on", "query"}))
			}
			g.directives(false)
			g.w(" ")
			g.selectionSet(d + 1)
		default:
			g.w("..." + pick(r, []string{"F", "frag", "a", "query"}))
			g.directives(false)
		}
	}
	g.sp()
	g.w("}")
}

func (g *c05Gen) typeRef(d int) {
	r := g.r
	switch {
	case d < 3 && r.Intn(4) == 0:
		g.w("[")
		g.typeRef(d + 1)
		g.w("]")
	default:
		g.w(pick(r, []string{"Int", "String", "User", "ID", "Boolean", "Float", "In"}))
	}
	if r.Intn(3) == 0 {
		g.w("!")
	}
}

func (g *c05Gen) operation() {
	r := g.r
	switch r.Intn(6) {
	case 0: // anonymous
	default:
		g.w(pick(r, []string{"query", "mutation", "subscription"}))
		if r.Intn(2) == 0 {
			g.w(" " + g.name())
		}
		if r.Intn(3) == 0 {
			g.w("(")
			for i, n := 0, 1+r.Intn(3); i < n; i++ {
				if i > 0 {
					g.w(", ")
				}
				g.w("$" + g.name() + ": ")
				g.typeRef(0)
				if r.Intn(3) == 0 {
					g.w(" = ")
					g.value(0, true)
				}
				g.directives(true)
			}
			g.w(")")
		}
		g.directives(false)
		g.w(" ")
	}
	g.selectionSet(1)
}

func (g *c05Gen) fragment() {
	g.w("fragment " + pick(g.r, []string{"F", "frag", "a"}) + " on " + pick(g.r, []string{"User", "Node"}))
	g.directives(false)
	g.w(" ")
	g.selectionSet(1)
}

func (g *c05Gen) description() {
	if g.r.Intn(4) == 0 {
		g.str()
		g.w("\n")
	}
}

func (g *c05Gen) argDefs() {
	r := g.r
	if r.Intn(3) != 0 {
		return
	}
	g.w("(")
	for i, n := 0, 1+r.Intn(3); i < n; i++ {
		if i > 0 {
			g.w(", ")
		}
		g.description()
		g.w(g.name() + ": ")
		g.typeRef(0)
		if r.Intn(3) == 0 {
			g.w(" = ")
			g.value(0, true)
		}
		g.directives(true)
	}
	g.w(")")
}

func (g *c05Gen) fieldDefs(input bool) {
	r := g.r
	g.w(" {")
	for i, n := 0, 1+r.Intn(4); i < n; i++ {
		g.w("\n  ")
		g.description()
		g.w(g.name())
		if !input {
			g.argDefs()
		}
		g.w(": ")
		g.typeRef(0)
		if input && r.Intn(3) == 0 {
			g.w(" = ")
			g.value(0, true)
		}
		g.directives(true)
	}
	g.w("\n}")
}

func (g *c05Gen) sdlDef() {
	r := g.r
	ext := ""
	k := r.Intn(11)
	if r.Intn(5) == 0 && k != 9 {
		ext = "extend "
	} else {
		g.description()
	}
	tn := pick(r, []string{"User", "Query", "Node", "In", "Color", "U", "Date"})
	switch k {
	case 0, 1:
		g.w(ext + "type " + tn)
		if r.Intn(3) == 0 {
			g.w(" implements " + pick(r, []string{"Node", "Node & Named", "& Node"}))
		}
		g.directives(true)
		if ext == "" || r.Intn(3) != 0 {
			g.fieldDefs(false)
		}
	case 2:
		g.w(ext + "interface " + tn)
		if r.Intn(4) == 0 {
			g.w(" implements Node")
		}
		g.directives(true)
		g.fieldDefs(false)
	case 3:
		g.w(ext + "input " + tn)
		g.directives(true)
		g.fieldDefs(true)
	case 4:
		g.w(ext + "enum " + tn)
		g.directives(true)
		g.w(" {")
		for i, n := 0, 1+r.Intn(3); i < n; i++ {
			g.w(" ")
			g.description()
			g.w(pick(r, []string{"RED", "GREEN", "on", "query"}))
			g.directives(true)
		}
		g.w(" }")
	case 5:
		g.w(ext + "union " + tn)
		g.directives(true)
		g.w(" = " + pick(r, []string{"A", "A | B", "| A | B"}))
	case 6:
		g.w(ext + "scalar " + tn)
		g.directives(true)
	case 7, 8:
		g.w(ext + "schema")
		g.directives(true)
		g.w(" {")
		for i, n := 0, r.Intn(4); i < n; i++ {
			g.w(" " + pick(r, []string{"query", "mutation", "subscription"}) + ": " + tn)
		}
		g.w(" }")
	default:
		g.w("directive @" + g.name())
		g.argDefs()
		if r.Intn(3) == 0 {
			g.w(" repeatable")
		}
		g.w(" on " + pick(r, []string{"FIELD", "FIELD | QUERY", "| OBJECT | FIELD_DEFINITION", "INPUT_FIELD_DEFINITION"}))
	}
}

func c05GenDoc(r *rand.Rand) []byte {
	g := &c05Gen{r: r, sb: &strings.Builder{}}
	n := 1 + r.Intn(3)
	sdl := r.Intn(3) == 0
	for i := 0; i < n; i++ {
		if i > 0 {
			g.w(pick(r, []string{"\n", " ", "\n\n", " #c\n"}))
		}
		if sdl {
			g.sdlDef()
		} else if r.Intn(4) == 0 {
			g.fragment()
		} else {
			g.operation()
		}
	}
	b := []byte(g.sb.String())
	if r.Intn(12) == 0 && len(b) > 0 { // near-valid: one byte-level mutation
		switch r.Intn(3) {
		case 0:
			b[r.Intn(len(b))] = byte(r.Intn(256))
		case 1:
			i := r.Intn(len(b))
			b = append(b[:i], b[min(len(b), i+1+r.Intn(3)):]...)
		default:
			i := r.Intn(len(b))
			b = append(b[:i:i], append([]byte(pick(r, c05Soup)), b[i:]...)...)
		}
	}
	return b
}

var c05Corpus [][]byte

func c05LoadCorpus() {
	if c05Corpus != nil {
		return
	}
	c05Corpus = [][]byte{}
	filepath.Walk("/repo", func(p string, info os.FileInfo, err error) error {
		if err != nil || info.IsDir() {
			return nil
		}
		if (strings.HasSuffix(p, ".graphql") || strings.HasSuffix(p, ".graphqls")) && info.Size() < 120_000 {
			if b, err := os.ReadFile(p); err == nil {
				c05Corpus = append(c05Corpus, b)
			}
		}
		return nil
	})
	// minimised past failures / design-time witnesses
	for _, s := range []string{`{a(x:"""  "  """)}`, `{ query a b c d e f g }`, `schema {}`, "\"\"\" interface\x00enum FIELD", `""" \\QUERY"""union u`,
		`{a(x:"""   """)}`, `{ ... { a } ... { b } ... { c } }`, "extend input X { a: Int }\ntype Query { items(filter: Filter): [String] }",
		`query Q($a: Int = 1 @d) { a: b(x: [1, {y: $a}]) @include(if: true) { ...F ... on T { c } } } fragment F on T { d }`} {
		c05Corpus = append(c05Corpus, []byte(s))
	}
}

// ---- the check ----------------------------------------------------------------------------------

func c05Check(run *Run, src []byte, stream string, limD, limF int) {
	in := map[string]any{"src": hx(src), "src_text": string(src), "stream": stream}
	hasNul := bytes.IndexByte(src, 0) >= 0
	// 1. lexer: totality, bounds, correspondence
	toks, p := c05ImplLex(src)
	if p != nil {
		run.Violate(Violation{Kind: "oracle", Clause: "lex_total_no_panic", Input: in, Detail: fmt.Sprint(p)}, "")
		return
	}
	prevStop := 0
	for _, t := range toks {
		if t[1] > t[2] || t[2] > len(src) {
			run.Violate(Violation{Kind: "oracle", Clause: "lex_bounds", Input: in, Detail: fmt.Sprintf("token %v outside input of %d bytes", t, len(src))}, "")
			return
		}
		_ = prevStop
	}
	feats := []string{"stream:" + stream}
	m, err := run.Pool.Ask("c05.lex", map[string]any{"src": hx(src)})
	if err != nil {
		run.Violate(Violation{Kind: "correspondence", Clause: "driver", Input: in, Detail: err.Error()}, "")
		return
	}
	if !sameJSON(map[string]any{"toks": toks}, m) {
		run.Violate(Violation{Kind: "correspondence", Clause: "c05.lex model≠impl", Input: in, Impl: toks, Model: decodeRaw(m)}, "")
	}
	// 2. limits: correspondence + oracle against the measured depth/fields of the parsed AST
	lim, p := c05ImplLimits(src, limD, limF)
	if p != nil {
		run.Violate(Violation{Kind: "oracle", Clause: "limits_no_panic", Input: in, Detail: fmt.Sprint(p)}, "")
		return
	}
	lin := map[string]any{"src": hx(src), "src_text": string(src), "maxDepth": limD, "maxFields": limF, "stream": stream}
	m, err = run.Pool.Ask("c05.limits", map[string]any{"src": hx(src), "maxDepth": limD, "maxFields": limF})
	if err != nil {
		run.Violate(Violation{Kind: "correspondence", Clause: "driver", Input: lin, Detail: err.Error()}, "")
		return
	}
	if !sameJSON(lim, m) {
		run.Violate(Violation{Kind: "correspondence", Clause: "c05.limits model≠impl", Input: lin, Impl: lim, Model: decodeRaw(m)}, "")
	}
	// 3. parse / print round trip (compact and indented)
	rt := c05RoundTrip(src, nil)
	key := ""
	if rt.Parsed {
		feats = append(feats, "parsed")
		key = hx(src)
		if lim.Verdict == "ok" {
			doc, _ := c05Parse(src)
			d, f := c05Measure(doc)
			if (limD > 0 && d > limD) || (limF > 0 && f > limF) {
				known := ""
				run.Violate(Violation{Kind: "oracle", Clause: "limits_sound", Input: lin, Impl: lim,
					Detail: fmt.Sprintf("accepted although real depth=%d fields=%d exceed limits depth=%d fields=%d", d, f, limD, limF)}, known)
			}
			feats = append(feats, "limits_ok")
			// adaptive limits: one below the measured depth / field count must be rejected
			for _, al := range [][2]int{{d - 1, 0}, {0, f - 1}} {
				if al[0] <= 0 && al[1] <= 0 {
					continue
				}
				l2, p2 := c05ImplLimits(src, al[0], al[1])
				if p2 == nil && l2.Verdict == "ok" {
					run.Violate(Violation{Kind: "oracle", Clause: "limits_sound",
						Input: map[string]any{"src": hx(src), "src_text": string(src), "maxDepth": al[0], "maxFields": al[1], "stream": stream}, Impl: l2,
						Detail: fmt.Sprintf("accepted although real depth=%d fields=%d exceed limits depth=%d fields=%d", d, f, al[0], al[1])}, "")
				}
			}
		} else {
			feats = append(feats, "limits_reject")
		}
	} else {
		feats = append(feats, "parse_error")
	}
	run.Count(key, feats...)
	report := func(rt c05RT, mode string) {
		if rt.Clause == "" {
			return
		}
		known := ""
		switch {
		case hasNul && (rt.Clause == "print_reparses" || rt.Clause == "print_fixpoint" || rt.Clause == "shape_preserved"):
			known = "C05-nul-terminates-tokens"
		case c05HasTrickyBlockString(src) && (rt.Clause == "print_fixpoint" || rt.Clause == "shape_preserved" || rt.Clause == "print_reparses"):
			known = "C05-blockstring-quote-whitespace"
		}
		if known != "" && run.OpenFinding(known) != nil {
			run.Violate(Violation{}, known)
			return
		}
		var ind []byte
		if mode == "indent" {
			ind = []byte("  ")
		}
		small := shrinkBytes(src, func(x []byte) bool {
			if bytes.IndexByte(x, 0) >= 0 != hasNul {
				return false
			}
			return c05RoundTrip(x, ind).Clause == rt.Clause
		})
		srt := c05RoundTrip(small, ind)
		run.Violate(Violation{Kind: "oracle", Clause: rt.Clause + "(" + mode + ")",
			Input:  map[string]any{"src": hx(small), "src_text": string(small), "stream": stream, "original": string(src)},
			Detail: srt.Detail, Impl: map[string]any{"print1": srt.Print1, "print2": srt.Print2}}, "")
	}
	report(rt, "compact")
	if rt.Parsed && rt.Clause == "" {
		report(c05RoundTrip(src, []byte("  ")), "indent")
	}
	if rt.Parsed && len(src) < 200 {
		run.Sample(map[string]any{"src": string(src), "stream": stream, "tokens": len(toks), "limits": lim})
	}
}

func runC05(run *Run, replay string) Spec {
	spec := Spec{
		Level: "proof",
		Rule: "byte strings from four streams (random bytes, token soup, grammar-generated operations/SDL with adversarial literals and near-valid mutations, the repository's own .graphql files and their mutations), one PRNG; " +
			"every input goes through lexer, TokenizeWithLimits (random limits), parse and compact+indented print round trip; non-trivial = the document parses; distinct = distinct input bytes",
		TrustedBase: []string{"Lean 4 kernel", "axioms: propext, Classical.choice, Quot.sound only (audited)",
			"hand-written Lean model GqlVerif.Gql.Lex (Lexer.Read, Tokenize, TokenizeWithLimits) tied to the Go code by differential token streams/limit verdicts and regenerated character/keyword tables",
			"parser and printer are NOT modelled in Lean: their clauses (refs in bounds, round trip, fixpoint) are evaluated as oracles on the implementation only",
			"Go harness vh (generators, reflection-based shape dump)"},
		Assumptions: []string{"Go stack exhaustion on adversarially deep nesting is runtime behaviour outside the model", "structural identity is judged on the parser's node arrays with positions removed"},
	}
	c05LoadCorpus()
	if replay != "" {
		b, err := os.ReadFile(replay)
		if err == nil {
			var f struct {
				Violation struct {
					Input struct {
						Src       string `json:"src"`
						MaxDepth  int    `json:"maxDepth"`
						MaxFields int    `json:"maxFields"`
					} `json:"input"`
				} `json:"violation"`
			}
			if json.Unmarshal(b, &f) == nil {
				c05Check(run, unhex(f.Violation.Input.Src), "replay", f.Violation.Input.MaxDepth, f.Violation.Input.MaxFields)
			}
		}
		return spec
	}
	// known-finding witnesses first
	for _, k := range run.Known {
		if k.Status != "open" {
			continue
		}
		var w struct {
			Src string `json:"src"`
		}
		if json.Unmarshal(k.Witness, &w) == nil && w.Src != "" {
			c05Check(run, []byte(w.Src), "known-witness", 0, 0)
		}
	}
	for _, c := range c05Corpus {
		c05Check(run, c, "corpus", 0, 0)
		c05Check(run, c, "corpus", 3, 10)
	}
	n := 60_000
	if run.Tier == "thorough" {
		n = 3_000_000
	}
	parallelFor(n, 12, func(i int) {
		if run.NViolations() >= 20 {
			return
		}
		r := subRng(run.Seed, i)
		var src []byte
		stream := ""
		switch k := r.Intn(20); {
		case k < 2:
			src, stream = c05GenBytes(r), "bytes"
		case k < 6:
			src, stream = c05GenSoup(r), "soup"
		case k < 18:
			src, stream = c05GenDoc(r), "grammar"
		default:
			c := append([]byte{}, pick(r, c05Corpus)...)
			if len(c) > 0 {
				for j, m := 0, 1+r.Intn(3); j < m; j++ {
					a := r.Intn(len(c))
					e := min(len(c), a+r.Intn(12))
					if r.Intn(2) == 0 {
						c = append(c[:a], c[e:]...)
					} else {
						c = append(c[:e:e], append(append([]byte{}, c[a:e]...), c[e:]...)...)
					}
					if len(c) == 0 {
						break
					}
				}
			}
			src, stream = c, "corpus-mutated"
		}
		limD, limF := 0, 0
		if r.Intn(2) == 0 {
			limD = r.Intn(6)
			limF = r.Intn(8)
		}
		c05Check(run, src, stream, limD, limF)
	})
	return spec
}

// specBlockStringValue: the GraphQL specification's BlockStringValue(rawValue) algorithm.
func specBlockStringValue(raw string) string {
	raw = strings.ReplaceAll(raw, "\r\n", "\n")
	raw = strings.ReplaceAll(raw, "\r", "\n")
	lines := strings.Split(raw, "\n")
	common := -1
	for i, l := range lines {
		if i == 0 {
			continue
		}
		ind := len(l) - len(strings.TrimLeft(l, " \t"))
		if ind < len(l) && (common < 0 || ind < common) {
			common = ind
		}
	}
	if common > 0 {
		for i := range lines {
			if i == 0 {
				continue
			}
			if len(lines[i]) >= common {
				lines[i] = lines[i][common:]
			} else {
				lines[i] = ""
			}
		}
	}
	for len(lines) > 0 && strings.TrimLeft(lines[0], " \t") == "" {
		lines = lines[1:]
	}
	for len(lines) > 0 && strings.TrimLeft(lines[len(lines)-1], " \t") == "" {
		lines = lines[:len(lines)-1]
	}
	return strings.Join(lines, "\n")
}
