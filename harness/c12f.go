package main

// C12, the filter itself: "an event that passes the subscriber's filter" is decided by SubscriptionFilter.SkipEvent.  Generated
// filter trees (And / Or / Not / In with static and variable values of every scalar type, array-valued variables) are evaluated
// on generated events and compared with an independent evaluation of the same tree: In matches when the event's field equals
// one of the listed values (an array-valued variable lists its elements), type and value; And / Or / Not as usual; a field the
// event does not have matches nothing.

import (
	"context"
	"encoding/json"
	"fmt"
	"math/rand"
	"strings"

	"github.com/wundergraph/astjson"

	"github.com/wundergraph/graphql-go-tools/v2/pkg/engine/resolve"
)

type c12FNode struct {
	Kind     string      `json:"kind"` // and | or | not | in
	Children []*c12FNode `json:"children,omitempty"`
	Field    string      `json:"field,omitempty"`
	Values   []c12FValue `json:"values,omitempty"`
}

type c12FValue struct {
	Static   string `json:"static,omitempty"`   // JSON text of a static value
	Variable string `json:"variable,omitempty"` // name of a context variable
	Prefix   string `json:"prefix,omitempty"`   // with Variable: a two-segment template, static prefix + variable (a string)
}

// the values of one IN list come from one argument of the subscription field: they are of one type
func c12FGenScalarOf(r *rand.Rand, kind int) any {
	switch kind {
	case 0:
		return pick(r, []string{"a", "b", "a b", "x\"y", "1", "true", ""})
	case 1:
		return json.Number(pick(r, []string{"1", "2", "12", "-1", "1.5", "0"}))
	case 2:
		return r.Intn(2) == 0
	default:
		return pick(r, []string{"a", "b"})
	}
}

func c12FGenScalar(r *rand.Rand) any { return c12FGenScalarOf(r, r.Intn(4)) }

func c12FGen(r *rand.Rand, depth int, vars map[string]any) *c12FNode {
	k := r.Intn(10)
	if depth >= 3 {
		k = 9
	}
	switch {
	case k < 2:
		n := &c12FNode{Kind: "and"}
		for i := r.Intn(4); i > 0; i-- {
			n.Children = append(n.Children, c12FGen(r, depth+1, vars))
		}
		if len(n.Children) == 0 {
			n.Children = append(n.Children, c12FGen(r, depth+1, vars))
		}
		return n
	case k < 4:
		n := &c12FNode{Kind: "or"}
		for i := 1 + r.Intn(3); i > 0; i-- {
			n.Children = append(n.Children, c12FGen(r, depth+1, vars))
		}
		return n
	case k < 5:
		return &c12FNode{Kind: "not", Children: []*c12FNode{c12FGen(r, depth+1, vars)}}
	}
	n := &c12FNode{Kind: "in", Field: pick(r, []string{"s", "n", "b", "t", "missing"})}
	kind := r.Intn(4)
	for i := 1 + r.Intn(4); i > 0; i-- {
		if (kind == 0 || kind == 3) && r.Intn(6) == 0 {
			// a template of two segments: always compared as a string
			name := fmt.Sprintf("v%d", len(vars))
			vars[name] = pick(r, []string{"a", "b", "y", ""})
			n.Values = append(n.Values, c12FValue{Variable: name, Prefix: pick(r, []string{"", "a ", "x\""})})
			continue
		}
		if r.Intn(3) == 0 {
			name := fmt.Sprintf("v%d", len(vars))
			if r.Intn(3) == 0 {
				var arr []any
				for j := r.Intn(4); j > 0; j-- {
					arr = append(arr, c12FGenScalarOf(r, kind))
				}
				if arr == nil {
					arr = []any{}
				}
				vars[name] = arr
			} else {
				vars[name] = c12FGenScalarOf(r, kind)
			}
			n.Values = append(n.Values, c12FValue{Variable: name})
		} else {
			b, _ := json.Marshal(c12FGenScalarOf(r, kind))
			n.Values = append(n.Values, c12FValue{Static: string(b)})
		}
	}
	return n
}

func (n *c12FNode) build() *resolve.SubscriptionFilter {
	switch n.Kind {
	case "and":
		f := &resolve.SubscriptionFilter{And: []resolve.SubscriptionFilter{}}
		for _, c := range n.Children {
			f.And = append(f.And, *c.build())
		}
		return f
	case "or":
		f := &resolve.SubscriptionFilter{Or: []resolve.SubscriptionFilter{}}
		for _, c := range n.Children {
			f.Or = append(f.Or, *c.build())
		}
		return f
	case "not":
		return &resolve.SubscriptionFilter{Not: n.Children[0].build()}
	}
	in := &resolve.SubscriptionFieldFilter{FieldPath: []string{"data", n.Field}}
	for _, v := range n.Values {
		if v.Variable != "" && v.Prefix != "" {
			in.Values = append(in.Values, resolve.InputTemplate{Segments: []resolve.TemplateSegment{
				{SegmentType: resolve.StaticSegmentType, Data: []byte(v.Prefix)},
				{SegmentType: resolve.VariableSegmentType, VariableKind: resolve.ContextVariableKind, VariableSourcePath: []string{v.Variable}, Renderer: resolve.NewPlainVariableRenderer()}}})
			continue
		}
		if v.Variable != "" {
			in.Values = append(in.Values, resolve.InputTemplate{Segments: []resolve.TemplateSegment{{SegmentType: resolve.VariableSegmentType,
				VariableKind: resolve.ContextVariableKind, VariableSourcePath: []string{v.Variable}, Renderer: resolve.NewPlainVariableRenderer()}}})
		} else {
			in.Values = append(in.Values, resolve.InputTemplate{Segments: []resolve.TemplateSegment{{SegmentType: resolve.StaticSegmentType, Data: []byte(v.Static)}}})
		}
	}
	return &resolve.SubscriptionFilter{In: in}
}

func c12FKind(v any) string {
	switch v.(type) {
	case string:
		return "string"
	case json.Number, float64:
		return "number"
	case bool:
		return "bool"
	case nil:
		return "null"
	case []any:
		return "array"
	}
	return "other"
}

func c12FSame(a, b any) bool {
	if c12FKind(a) != c12FKind(b) {
		return false
	}
	x, _ := json.Marshal(a)
	y, _ := json.Marshal(b)
	return string(x) == string(y)
}

// the independent evaluation: true = the event passes
func (n *c12FNode) eval(event map[string]any, vars map[string]any) bool {
	switch n.Kind {
	case "and":
		for _, c := range n.Children {
			if !c.eval(event, vars) {
				return false
			}
		}
		return true
	case "or":
		for _, c := range n.Children {
			if c.eval(event, vars) {
				return true
			}
		}
		return false
	case "not":
		return !n.Children[0].eval(event, vars)
	}
	fv, ok := event[n.Field]
	if !ok {
		return false
	}
	for _, v := range n.Values {
		var val any
		if v.Variable != "" && v.Prefix != "" {
			val = v.Prefix + fmt.Sprint(vars[v.Variable])
		} else if v.Variable != "" {
			val = vars[v.Variable]
		} else {
			dec := json.NewDecoder(strings.NewReader(v.Static))
			dec.UseNumber()
			_ = dec.Decode(&val)
		}
		if arr, isArr := val.([]any); isArr {
			for _, e := range arr {
				if c12FSame(e, fv) {
					return true
				}
			}
			continue
		}
		if c12FSame(val, fv) {
			return true
		}
	}
	return false
}

func c12FilterCheck(run *Run, r *rand.Rand) {
	vars := map[string]any{}
	tree := c12FGen(r, 0, vars)
	event := map[string]any{}
	if r.Intn(8) > 0 {
		event["s"] = pick(r, []string{"a", "b", "a b", "x\"y", "1", "true", ""})
	}
	if r.Intn(8) > 0 {
		event["n"] = json.Number(pick(r, []string{"1", "2", "12", "-1", "1.5", "0"}))
	}
	if r.Intn(8) > 0 {
		event["b"] = r.Intn(2) == 0
	}
	if r.Intn(8) > 0 {
		event["t"] = pick(r, []string{"a", "b"})
	}
	c12FilterEval(run, tree, event, vars)
}

// replay of a recorded filter case
func c12FilterReplay(run *Run, input json.RawMessage) bool {
	var in struct {
		Filter *c12FNode `json:"filter"`
		Event  struct {
			Data map[string]any `json:"data"`
		} `json:"event"`
		Variables map[string]any `json:"variables"`
	}
	dec := json.NewDecoder(strings.NewReader(string(input)))
	dec.UseNumber()
	if dec.Decode(&in) != nil || in.Filter == nil {
		return false
	}
	if in.Variables == nil {
		in.Variables = map[string]any{}
	}
	c12FilterEval(run, in.Filter, in.Event.Data, in.Variables)
	run.Count("replay")
	return true
}

func c12FilterEval(run *Run, tree *c12FNode, event map[string]any, vars map[string]any) {
	data, _ := json.Marshal(map[string]any{"data": event})
	vb, _ := json.Marshal(vars)
	in := map[string]any{"filter": tree, "event": json.RawMessage(data), "variables": json.RawMessage(vb)}
	ctx := resolve.NewContext(context.Background())
	ctx.Variables = astjson.MustParseBytes(vb)
	var skip bool
	var err error
	func() {
		defer func() {
			if p := recover(); p != nil {
				err = fmt.Errorf("panic: %v", p)
			}
		}()
		skip, err = tree.build().SkipEvent(ctx, data)
	}()
	if err != nil {
		run.Violate(Violation{Kind: "oracle", Clause: "filter_evaluates", Input: in, Detail: err.Error()}, "")
		return
	}
	want := tree.eval(event, vars)
	// the meaning of "passes": the Lean model Misc.SubFilter (the Go evaluation above is a second, independent reading)
	raw, derr := run.Pool.Ask("c12.filter", in)
	if derr != nil {
		run.Violate(Violation{Kind: "correspondence", Clause: "driver", Input: in, Detail: derr.Error()}, "")
		return
	}
	var m struct {
		Passes bool `json:"passes"`
	}
	_ = json.Unmarshal(raw, &m)
	if m.Passes != want {
		run.Violate(Violation{Kind: "correspondence", Clause: "filter model ≠ harness evaluation", Input: in, Detail: fmt.Sprintf("Misc.SubFilter.passes = %v, the harness' evaluation = %v", m.Passes, want)}, "")
		return
	}
	if skip == want {
		run.Violate(Violation{Kind: "oracle", Clause: "filter_decides_by_value", Input: in,
			Detail: fmt.Sprintf("SkipEvent says skip=%v; the event %s the filter (its field values against the listed values, by type and value)", skip, map[bool]string{true: "passes", false: "does not pass"}[want])}, "")
		return
	}
	run.Feat(map[bool]string{true: "filter:passes", false: "filter:skipped"}[want])
}
