package main

import (
	"encoding/json"
	"fmt"
	"math"
	"math/rand"
	"net/http"
	"os"
	"strings"
	"time"

	"github.com/wundergraph/graphql-go-tools/v2/pkg/caching"
	"github.com/wundergraph/graphql-go-tools/v2/pkg/engine/cache"
)

func init() { props["C16"] = runC16 }

// ---- implementation side --------------------------------------------------------------------

type c16Out struct {
	Stored bool  `json:"stored"`
	TTL    int64 `json:"ttl"`
	Parsed any   `json:"parsed"`
}

func c16Impl(values [][]byte, def int64) (out c16Out, panicked any) {
	defer func() {
		if p := recover(); p != nil {
			panicked = p
		}
	}()
	h := http.Header{}
	for _, v := range values {
		h.Add("Cache-Control", string(v))
	}
	ttl, ok := caching.TTL(h, time.Duration(def))
	out.Stored = ok
	out.TTL = int64(ttl)
	cc, err := cache.ParseCacheControlResponse(h)
	if err != nil {
		out.Parsed = "error"
	} else {
		var ma, sma any
		if cc.MaxAge != nil {
			ma = int64(*cc.MaxAge)
		}
		if cc.SMaxAge != nil {
			sma = int64(*cc.SMaxAge)
		}
		out.Parsed = map[string]any{"maxAge": ma, "sMaxAge": sma, "noStore": cc.NoStore, "noCache": cc.NoCache != nil,
			"public": cc.Public, "private": cc.Private != nil}
	}
	return
}

// ---- independent spec reading (RFC 9111 §5.2, used as the property oracle on the implementation) ----

type specDirective struct {
	name string
	arg  *string
}

// specSplit splits a field value into members at commas outside quoted strings (with quoted-pair),
// returns ok=false when a quoted string is unterminated.
func specSplit(v string) (members []string, ok bool) {
	var cur strings.Builder
	inQ := false
	for i := 0; i < len(v); i++ {
		c := v[i]
		switch {
		case inQ && c == '\\' && i+1 < len(v):
			cur.WriteByte(c)
			i++
			cur.WriteByte(v[i])
		case c == '"':
			inQ = !inQ
			cur.WriteByte(c)
		case c == ',' && !inQ:
			members = append(members, cur.String())
			cur.Reset()
		default:
			cur.WriteByte(c)
		}
	}
	members = append(members, cur.String())
	return members, !inQ
}

func specDirectives(values [][]byte) (ds []specDirective, wellformed bool) {
	parts := make([]string, len(values))
	for i, v := range values {
		parts[i] = string(v)
	}
	members, ok := specSplit(strings.Join(parts, ","))
	for _, m := range members {
		// CR/LF cannot occur inside a delivered field value (the code trims them at the ends of the
		// joined value); the spec reading treats them as whitespace around members.
		m = strings.Trim(m, " \t\r\n")
		if m == "" {
			continue
		}
		name, arg, has := strings.Cut(m, "=")
		name = strings.ToLower(strings.Trim(name, " \t\r\n"))
		d := specDirective{name: name}
		if has {
			a := strings.Trim(arg, " \t\r\n")
			if len(a) >= 2 && a[0] == '"' && a[len(a)-1] == '"' {
				a = a[1 : len(a)-1]
			}
			d.arg = &a
		}
		ds = append(ds, d)
	}
	return ds, ok
}

func allDigits(s string) bool {
	if s == "" {
		return false
	}
	for i := 0; i < len(s); i++ {
		if s[i] < '0' || s[i] > '9' {
			return false
		}
	}
	return true
}

// specLifetimeSeconds: first s-maxage, else first max-age; -1 = none; clamp at 2^31-1.
func specLifetimeSeconds(ds []specDirective) (float64, bool) {
	for _, name := range []string{"s-maxage", "max-age"} {
		for _, d := range ds {
			if d.name == name {
				if d.arg == nil || !allDigits(*d.arg) {
					return 0, true // present but unusable: nothing may be stored with a positive lifetime from it
				}
				var f float64
				for _, c := range *d.arg {
					f = f*10 + float64(c-'0')
					if f > math.MaxInt32 {
						f = math.MaxInt32
					}
				}
				return f, true
			}
		}
	}
	return 0, false
}

// c16Oracle: the property's storage clause on the implementation's decision.
func c16Oracle(values [][]byte, def int64, out c16Out) string {
	if !out.Stored {
		return ""
	}
	ds, _ := specDirectives(values)
	pub := false
	for _, d := range ds {
		switch d.name {
		case "public":
			pub = true
		case "no-store", "no-cache", "private":
			return "stored although a refusal directive (" + d.name + ") is present"
		}
	}
	if !pub {
		return "stored although not explicitly public"
	}
	if out.TTL <= 0 {
		return "stored with a non-positive lifetime"
	}
	if life, has := specLifetimeSeconds(ds); has {
		if float64(out.TTL) > life*1e9 {
			return fmt.Sprintf("lifetime %dns exceeds the header lifetime %.0fs", out.TTL, life)
		}
	} else if out.TTL > def {
		return "lifetime exceeds the configured default"
	}
	return ""
}

// ---- generator ------------------------------------------------------------------------------

var c16Names = []string{"public", "private", "no-cache", "no-store", "max-age", "s-maxage", "must-revalidate",
	"immutable", "proxy-revalidate", "stale-while-revalidate", "no-transform", "x", "publi", "publicc", "max-age ", "Public", "PRIVATE", "No-Cache", "nO-sToRe", "MAX-AGE", "S-MaxAge"}
var c16Nums = []string{"0", "1", "60", "3600", "00060", "2147483647", "2147483648", "99999999999999999999999", "-1", "+5", "1.5", "", "abc", "6 0", "9223372036854775807", "9223372036854775808"}
var c16Seps = []string{",", ", ", " ,", " , ", ",,", ",\t", ";", " ", ""}

func mutateCase(r *rand.Rand, s string) string {
	b := []byte(s)
	for i := range b {
		if r.Intn(4) == 0 {
			if b[i] >= 'a' && b[i] <= 'z' {
				b[i] -= 32
			} else if b[i] >= 'A' && b[i] <= 'Z' {
				b[i] += 32
			}
		}
	}
	return string(b)
}

func c16GenMember(r *rand.Rand) string {
	name := pick(r, c16Names)
	if r.Intn(3) == 0 {
		name = mutateCase(r, name)
	}
	var sb strings.Builder
	sb.WriteString(name)
	switch r.Intn(10) {
	case 0, 1, 2, 3: // no arg
	case 4, 5, 6:
		eq := pick(r, []string{"=", " =", "= ", " = ", "=="})
		sb.WriteString(eq)
		sb.WriteString(pick(r, c16Nums))
	case 7:
		sb.WriteString("=\"")
		sb.WriteString(pick(r, append(c16Nums, "Set-Cookie", "a, b", "a\\\"b", "Authorization,Set-Cookie", " ")))
		sb.WriteString("\"")
		if r.Intn(6) == 0 {
			sb.WriteString(pick(r, []string{"x", "\"", " y", "=1"}))
		}
	case 8:
		sb.WriteString("=")
		sb.WriteString(pick(r, []string{"Set-Cookie", "\"unterminated", "a b", "", ",", "\"\""}))
	case 9:
		sb.WriteString("=")
	}
	return sb.String()
}

func c16GenValue(r *rand.Rand) []byte {
	switch r.Intn(12) {
	case 0: // random bytes
		n := r.Intn(12)
		b := make([]byte, n)
		for i := range b {
			b[i] = byte(r.Intn(256))
		}
		return b
	case 1: // token soup
		alphabet := []string{"public", "private", "no-store", "no-cache", "max-age", "s-maxage", "=", ",", " ", "\t", "\"", "60", "0", "\\", "(", "\x7f", "\x00", "\r", "\n", "\xc3\xa9", "K", "x"}
		var sb strings.Builder
		for i, n := 0, r.Intn(10); i < n; i++ {
			sb.WriteString(pick(r, alphabet))
		}
		return []byte(sb.String())
	}
	var sb strings.Builder
	n := 1 + r.Intn(5)
	if r.Intn(10) == 0 {
		sb.WriteString(pick(r, []string{" ", "\t", "\r\n", ",", "\n"}))
	}
	for i := 0; i < n; i++ {
		if i > 0 {
			sb.WriteString(pick(r, c16Seps))
		}
		sb.WriteString(c16GenMember(r))
	}
	if r.Intn(10) == 0 {
		sb.WriteString(pick(r, []string{" ", "\t", "\r\n", ",", "\n", "\x01"}))
	}
	b := []byte(sb.String())
	if r.Intn(25) == 0 && len(b) > 0 { // byte-level corruption
		b[r.Intn(len(b))] = byte(r.Intn(256))
	}
	return b
}

type c16Case struct {
	Values []string `json:"values"` // hex
	Def    int64    `json:"default"`
}

func c16Gen(r *rand.Rand) ([][]byte, int64) {
	n := 1
	switch r.Intn(10) {
	case 0:
		n = 0
	case 1, 2:
		n = 2
	case 3:
		n = 3
	}
	vs := make([][]byte, n)
	for i := range vs {
		vs[i] = c16GenValue(r)
	}
	def := pick(r, []int64{0, -1, 1, int64(time.Second), int64(30 * time.Second), int64(time.Hour), math.MaxInt64})
	return vs, def
}

func c16Check(run *Run, vs [][]byte, def int64) {
	hexes := make([]string, len(vs))
	strs := make([]string, len(vs))
	for i, v := range vs {
		hexes[i] = hx(v)
		strs[i] = string(v)
	}
	in := map[string]any{"values": hexes, "default": def, "values_text": strs}
	out, p := c16Impl(vs, def)
	if p != nil {
		run.Violate(Violation{Kind: "oracle", Clause: "no_panic", Input: in, Detail: fmt.Sprint(p)}, "")
		return
	}
	key := ""
	feats := []string{}
	if out.Parsed == "error" {
		feats = append(feats, "parse_error")
	} else {
		feats = append(feats, "parse_ok")
		key = strings.Join(hexes, "|") + fmt.Sprint(def)
	}
	if out.Stored {
		feats = append(feats, "stored")
	} else {
		feats = append(feats, "not_stored")
	}
	run.Count(key, feats...)
	if msg := c16Oracle(vs, def, out); msg != "" {
		run.Violate(Violation{Kind: "oracle", Clause: "stored_only_when_allowed", Input: in, Impl: out, Detail: msg}, "")
	}
	m, err := run.Pool.Ask("c16.ttl", map[string]any{"values": hexes, "default": def})
	if err != nil {
		run.Violate(Violation{Kind: "correspondence", Clause: "driver", Input: in, Detail: err.Error()}, "")
		return
	}
	if !sameJSON(out, m) {
		run.Violate(Violation{Kind: "correspondence", Clause: "c16.ttl model≠impl", Input: in, Impl: out, Model: decodeRaw(m)}, "")
	}
	if out.Stored || run.Evaluations%5000 == 1 {
		run.Sample(map[string]any{"values": strs, "default": def, "impl": out})
	}
}

func runC16(run *Run, replay string) Spec {
	spec := Spec{
		Level: "proof",
		Rule: "Cache-Control header value lists (0-3 values) generated from the directive grammar with case/whitespace/quoting/number/separator mutations, " +
			"token soup and random bytes, one PRNG; non-trivial = the Go parser accepts the header (so a storage decision is made from parsed directives); distinct = distinct (values, default). " +
			"Engine side: histories of 4-9 requests (generated operations, repeated, with other numbers / booleans) on the federation bench with a recording cache attached per request; per subgraph one Cache-Control policy with its own lifetime " +
			"(storable and refusing forms), optionally entities a subgraph does not know (null inside _entities), a subgraph whose every answer carries an error, and cache faults (GetMany / SetMany errors, evictions = partial hits); " +
			"oracles: response with cache == response without cache, a cache failure never fails a request, every item handed to SetMany has a lifetime a storable error-free response of this history allows",
		TrustedBase: []string{"Lean 4 kernel", "axioms: propext, Classical.choice, Quot.sound only (audited)", "hand-written Lean model GqlVerif.Misc.CacheControl tied to the Go code by this differential run and by regenerated character/directive tables",
			"Go harness vh (generator, RFC 9111 splitter used as independent oracle)", "net/http.Header canonicalisation"},
		Assumptions: []string{"the entity cache backend honours the TTL it is given", "engine side: subgraph data does not change during a history; the cache never returns a value it was not given", "RFC 9111 reading: members split at commas outside quoted strings, names case-insensitive, first occurrence of a lifetime directive wins"},
	}
	if replay != "" {
		b, err := os.ReadFile(replay)
		if err == nil {
			var fe struct {
				Violation struct {
					Input struct {
						Engine  bool        `json:"engine"`
						History *c16History `json:"history"`
					} `json:"input"`
				} `json:"violation"`
			}
			if json.Unmarshal(b, &fe) == nil && fe.Violation.Input.Engine && fe.Violation.Input.History != nil {
				c16EngineCheck(run, fe.Violation.Input.History)
				return spec
			}
			var f struct {
				Violation struct {
					Input c16Case `json:"input"`
				} `json:"violation"`
			}
			if json.Unmarshal(b, &f) == nil {
				vs := [][]byte{}
				for _, h := range f.Violation.Input.Values {
					vs = append(vs, unhex(h))
				}
				c16Check(run, vs, f.Violation.Input.Def)
			}
		}
		return spec
	}
	// corpus first
	corpus := []string{"public", "public, max-age=60", "public, s-maxage=10, max-age=60", "private", "no-store", "public, no-cache=\"Set-Cookie\"",
		"PUBLIC, MAX-AGE=5", "public, max-age=0", "public,max-age=\"60\"", "public, max-age=60, max-age=10", "public , private=\"x\"", "max-age=60",
		"public, max-age=99999999999999999999", "public, foo=\"a\\\", no-store, b\"", "(public", "public, \"no-store\"", "public=1, no-store=0"}
	for _, c := range corpus {
		for _, d := range []int64{0, int64(time.Second)} {
			c16Check(run, [][]byte{[]byte(c)}, d)
		}
	}
	n := 100_000
	if run.Tier == "thorough" {
		n = 5_000_000
	}
	parallelFor(n, 12, func(i int) {
		if run.NViolations() >= 20 {
			return
		}
		r := subRng(run.Seed, i)
		vs, def := c16Gen(r)
		c16Check(run, vs, def)
	})
	// engine side: request histories on the federation bench with a recording cache attached (c16e.go)
	ne := 400
	if run.Tier == "thorough" {
		ne = 8000
	}
	if layouts, err := fedGetLayouts(); err == nil {
		l := layouts["L1"]
		parallelFor(ne, 8, func(i int) {
			if run.NViolations() >= 20 {
				return
			}
			r := subRng(run.Seed, 1_000_000_000+i)
			c16EngineCheck(run, c16GenHistory(r, l))
		})
	} else {
		run.Violate(Violation{Kind: "oracle", Clause: "layout_builds", Detail: err.Error()}, "")
	}
	return spec
}
