package main

// C16, engine side: with an entity response cache attached to the request (Context.SetResponseCache), every response of a
// sequence of requests equals the response the same request gets without a cache — whatever Cache-Control headers the subgraphs
// send, when only part of a batch is cached, when entities are unknown to a subgraph (null in _entities), when subgraph
// responses carry errors and when the cache itself fails — and what is stored obeys the headers of the response it came from.

import (
	"context"
	"encoding/json"
	"errors"
	"fmt"
	"math/rand"
	"net/http"
	"sort"
	"strings"
	"sync"
	"time"

	"github.com/wundergraph/graphql-go-tools/execution/engine"
	"github.com/wundergraph/graphql-go-tools/v2/pkg/caching"
	"github.com/wundergraph/graphql-go-tools/v2/pkg/engine/resolve"
)

type c16Cache struct {
	mu      sync.Mutex
	m       map[string]caching.Item
	sets    []caching.Item // everything SetMany was asked to store (also by calls that then failed)
	gets    int
	hits    int
	r       *rand.Rand
	getErrP float64
	setErrP float64
	evictP  float64
	faults  int
}

func (c *c16Cache) GetMany(_ context.Context, keys []string) (map[string]caching.Item, error) {
	c.mu.Lock()
	defer c.mu.Unlock()
	c.gets++
	if c.r.Float64() < c.getErrP {
		c.faults++
		return nil, errors.New("cache unavailable (injected)")
	}
	out := map[string]caching.Item{}
	for _, k := range keys {
		it, ok := c.m[k]
		if !ok {
			continue
		}
		if c.r.Float64() < c.evictP { // the entry expired or was evicted: a partial hit for the batch
			delete(c.m, k)
			c.faults++
			continue
		}
		out[k] = caching.Item{Key: k, Value: append([]byte{}, it.Value...), TTL: it.TTL}
	}
	if len(out) == len(keys) && len(keys) > 0 {
		c.hits++
	}
	return out, nil
}

func (c *c16Cache) SetMany(_ context.Context, items []caching.Item) error {
	c.mu.Lock()
	defer c.mu.Unlock()
	for _, it := range items {
		c.sets = append(c.sets, caching.Item{Key: it.Key, Value: append([]byte{}, it.Value...), TTL: it.TTL})
	}
	if c.r.Float64() < c.setErrP {
		c.faults++
		// an unspecified subset may have been stored
		var known []string
		for i, it := range items {
			if i%2 == 0 {
				c.m[it.Key] = caching.Item{Key: it.Key, Value: append([]byte{}, it.Value...), TTL: it.TTL}
				known = append(known, it.Key)
			}
		}
		return &caching.SetManyError{KnownStoredKeys: known, Err: errors.New("cache write failed (injected)")}
	}
	for _, it := range items {
		c.m[it.Key] = caching.Item{Key: it.Key, Value: append([]byte{}, it.Value...), TTL: it.TTL}
	}
	return nil
}

// one Cache-Control policy per subgraph; every subgraph has its own lifetime so that a stored TTL names its source
type c16Policy struct {
	Header   string `json:"header"`
	Storable bool   `json:"storable"`
	TTL      int64  `json:"ttl"` // seconds an entity of this subgraph may live (0 = the default)
}

const c16DefaultTTL = 7 * time.Second

func c16GenPolicy(r *rand.Rand, idx int) c16Policy {
	age := int64(100 + 10*idx)
	switch r.Intn(11) {
	case 0:
		return c16Policy{Header: fmt.Sprintf("public, max-age=%d", age), Storable: true, TTL: age}
	case 1:
		return c16Policy{Header: fmt.Sprintf("public, s-maxage=%d, max-age=%d", age, age+1000), Storable: true, TTL: age}
	case 2:
		return c16Policy{Header: "public", Storable: true, TTL: 0}
	case 3:
		return c16Policy{Header: fmt.Sprintf("max-age=%d, PUBLIC", age), Storable: true, TTL: age}
	case 4:
		return c16Policy{Header: fmt.Sprintf("private, max-age=%d", age)}
	case 5:
		return c16Policy{Header: fmt.Sprintf("public, no-store, max-age=%d", age)}
	case 6:
		return c16Policy{Header: fmt.Sprintf("public, no-cache, max-age=%d", age)}
	case 7:
		return c16Policy{Header: fmt.Sprintf("max-age=%d", age)} // not explicitly public
	case 8:
		return c16Policy{Header: ""} // no header at all
	default:
		return c16Policy{Header: fmt.Sprintf("public, max-age=%d", age), Storable: true, TTL: age}
	}
}

type c16Request struct {
	Operation string `json:"operation"`
	Variables string `json:"variables"`
	Note      string `json:"note,omitempty"`
}

type c16History struct {
	Universe *fedUniverse         `json:"universe"`
	Requests []c16Request         `json:"requests"`
	Policies map[string]c16Policy `json:"policies"`
	// entities a subgraph does not know: the _entities answer holds null at their positions
	Unknown     []string `json:"unknown,omitempty"`     // key values (id / upc)
	UnknownSub  string   `json:"unknownSub,omitempty"`  // the subgraph that does not know them
	ErrorsSub   string   `json:"errorsSub,omitempty"`   // every answer of this subgraph carries an error next to its data
	CacheFaults [3]int   `json:"cacheFaults,omitempty"` // percent: GetMany error, SetMany error, eviction per key
	Seed        int64    `json:"seed"`
}

// other values for the Int variables of a request (arguments like first: $v feed entity fields)
func c16VaryInts(r *rand.Rand, req c16Request) (c16Request, bool) {
	var vars map[string]any
	dec := json.NewDecoder(strings.NewReader(req.Variables))
	dec.UseNumber()
	if dec.Decode(&vars) != nil {
		return req, false
	}
	changed := false
	keys := make([]string, 0, len(vars))
	for k := range vars {
		keys = append(keys, k)
	}
	sort.Strings(keys)
	for _, k := range keys {
		switch v := vars[k].(type) {
		case json.Number:
			if n, err := v.Int64(); err == nil {
				vars[k] = json.Number(fmt.Sprint((n + 1 + int64(r.Intn(2))) % 4))
				changed = true
			}
		case nil:
			if r.Intn(2) == 0 {
				vars[k] = json.Number(fmt.Sprint(r.Intn(3)))
				changed = true
			}
		}
	}
	b, _ := json.Marshal(vars)
	return c16Request{Operation: req.Operation, Variables: string(b), Note: "same text, other numbers"}, changed
}

func c16GenHistory(r *rand.Rand, l *fedLayout) *c16History {
	u := fedL1Universe(r)
	h := &c16History{Universe: u, Policies: map[string]c16Policy{}, Seed: r.Int63()}
	for i, sg := range l.Subs {
		h.Policies[sg.Name] = c16GenPolicy(r, i)
	}
	var base []c16Request
	for i := 0; i < 2+r.Intn(2); i++ {
		op, vars, _ := fedGenOperation(r, l.super, u)
		base = append(base, c16Request{Operation: op, Variables: string(vars)})
	}
	h.Requests = append(h.Requests, base...)
	for _, b := range base {
		switch r.Intn(4) {
		case 0:
			rep := b
			rep.Note = "repeated"
			h.Requests = append(h.Requests, rep)
		case 1:
			if v, ok := c16VaryInts(r, b); ok {
				h.Requests = append(h.Requests, v)
			}
			rep := b
			rep.Note = "original again"
			h.Requests = append(h.Requests, rep)
		default:
			c9 := c09Request{Operation: b.Operation, Variables: b.Variables}
			if f, ok := c09FlipBooleans(c9); ok {
				h.Requests = append(h.Requests, c16Request{Operation: f.Operation, Variables: f.Variables, Note: f.Note})
			}
			rep := b
			rep.Note = "original again"
			h.Requests = append(h.Requests, rep)
		}
	}
	if r.Intn(3) == 0 {
		h.UnknownSub = pick(r, []string{"inventory", "reviews", "shipping", "hr", "geo", "products"})
		for _, k := range []string{"u0", "u1", "u2", "p0", "p1", "a0", "a1", "r0", "r1", "C0"} {
			if r.Intn(3) == 0 {
				h.Unknown = append(h.Unknown, k)
			}
		}
	}
	if r.Intn(5) == 0 {
		h.ErrorsSub = pick(r, []string{"inventory", "reviews", "shipping", "hr", "geo", "products", "accounts"})
	}
	if r.Intn(3) == 0 {
		h.CacheFaults = [3]int{r.Intn(30), r.Intn(30), r.Intn(30)}
	}
	return h
}

// the _entities answer with null for the representations the subgraph does not know
func c16NullUnknown(unknown []string, vars []byte, resp string) string {
	var v struct {
		Representations []map[string]any `json:"representations"`
	}
	if json.Unmarshal(vars, &v) != nil || len(v.Representations) == 0 {
		return resp
	}
	var parsed map[string]any
	dec := json.NewDecoder(strings.NewReader(resp))
	dec.UseNumber()
	if dec.Decode(&parsed) != nil {
		return resp
	}
	data, _ := parsed["data"].(map[string]any)
	ents, _ := data["_entities"].([]any)
	if len(ents) != len(v.Representations) {
		return resp
	}
	changed := false
	for i, rep := range v.Representations {
		for _, kv := range rep {
			if s, ok := kv.(string); ok && containsStr(unknown, s) && ents[i] != nil {
				ents[i] = nil
				changed = true
			}
		}
	}
	if !changed {
		return resp
	}
	b, _ := json.Marshal(parsed)
	return string(b)
}

func c16AddError(resp string) string {
	if !strings.HasPrefix(resp, "{") || strings.Contains(resp, `"errors"`) {
		return resp
	}
	return `{"errors":[{"message":"partial failure"}],` + resp[1:]
}

func c16EngineCheck(run *Run, h *c16History) {
	layouts, err := fedGetLayouts()
	if err != nil {
		run.Violate(Violation{Kind: "oracle", Clause: "layout_builds", Detail: err.Error()}, "")
		return
	}
	l := layouts["L1"]
	in := map[string]any{"engine": true, "history": h}
	eng, err := fedNewEngine(l, fedEngineOpts{})
	if err != nil {
		run.Violate(Violation{Kind: "oracle", Clause: "engine_builds", Input: in, Detail: err.Error()}, "")
		return
	}
	defer eng.cancel()
	plain, err := fedNewEngine(l, fedEngineOpts{})
	if err != nil {
		return
	}
	defer plain.cancel()
	cache := &c16Cache{m: map[string]caching.Item{}, r: rand.New(rand.NewSource(h.Seed)),
		getErrP: float64(h.CacheFaults[0]) / 100, setErrP: float64(h.CacheFaults[1]) / 100, evictP: float64(h.CacheFaults[2]) / 100}
	var cacheErrs []string
	var cemu sync.Mutex
	mkSession := func() *fedSession {
		s := &fedSession{layout: l, universe: h.Universe, pool: run.Pool}
		s.header = func(sub string) http.Header {
			if p := h.Policies[sub]; p.Header != "" {
				return http.Header{"Cache-Control": []string{p.Header}}
			}
			return nil
		}
		s.rewrite = func(sub, query string, vars []byte, resp string) string {
			if sub == h.UnknownSub && len(h.Unknown) > 0 {
				resp = c16NullUnknown(h.Unknown, vars, resp)
			}
			if sub == h.ErrorsSub {
				resp = c16AddError(resp)
			}
			return resp
		}
		return s
	}
	withCache := engine.WithVerifResolveContext(func(c *resolve.Context) {
		c.SetResponseCache(cache, c16DefaultTTL, func(e error) {
			cemu.Lock()
			cacheErrs = append(cacheErrs, e.Error())
			cemu.Unlock()
		})
	})
	served := 0
	for k, req := range h.Requests {
		base := plain.run(mkSession(), req.Operation, "Q", []byte(req.Variables))
		if base.Err != nil {
			continue
		}
		got := eng.run(mkSession(), req.Operation, "Q", []byte(req.Variables), withCache)
		if got.Err != nil {
			run.Violate(Violation{Kind: "oracle", Clause: "cache_never_fails_a_request", Input: in,
				Detail: fmt.Sprintf("request %d (%s) fails with the cache attached: %v; without a cache it answers %s", k, req.Note, got.Err, truncate(base.Raw, 500))}, "")
			continue
		}
		if !fedJSONEqual(got.Data, base.Data) || c09ErrorsKey(got.Errors) != c09ErrorsKey(base.Errors) {
			run.Violate(Violation{Kind: "oracle", Clause: "cache_transparent", Input: in, Impl: got.Raw, Model: base.Raw,
				Detail: fmt.Sprintf("request %d (%s) with the cache attached: %s; without a cache: %s", k, req.Note, truncate(got.Raw, 900), truncate(base.Raw, 900))}, "")
			return
		}
		if len(got.Log) < len(base.Log) {
			served++
		}
		run.mu.Lock()
		run.TracesVsImpl++
		run.mu.Unlock()
	}
	// what was handed to SetMany obeys the header of the response it came from
	allowed := map[int64]string{}
	storable := false
	for sub, p := range h.Policies {
		if !p.Storable || sub == h.ErrorsSub {
			continue
		}
		storable = true
		if p.TTL == 0 {
			allowed[int64(c16DefaultTTL/time.Second)] = sub
		} else {
			allowed[p.TTL] = sub
		}
	}
	cache.mu.Lock()
	sets := append([]caching.Item{}, cache.sets...)
	hits, faults := cache.hits, cache.faults
	cache.mu.Unlock()
	for _, it := range sets {
		secs := int64(it.TTL / time.Second)
		if _, ok := allowed[secs]; !ok || it.TTL <= 0 || it.TTL%time.Second != 0 {
			src := "no subgraph of this history"
			for sub, p := range h.Policies {
				if p.TTL == secs || (p.TTL == 0 && secs == int64(c16DefaultTTL/time.Second)) || strings.Contains(p.Header, fmt.Sprintf("max-age=%d", secs)) {
					src = fmt.Sprintf("subgraph %s (Cache-Control %q, every answer carries an error: %v)", sub, p.Header, sub == h.ErrorsSub)
				}
			}
			run.Violate(Violation{Kind: "oracle", Clause: "stored_only_as_the_header_allows", Input: in, Impl: map[string]any{"key": it.Key, "ttl": it.TTL.String(), "value": string(it.Value)},
				Detail: fmt.Sprintf("an entity was handed to the cache with a lifetime of %s; the lifetimes a storable, error-free response allows are %v; the lifetime points at %s", it.TTL, allowed, src)}, "")
			return
		}
		if len(it.Value) == 0 || it.Value[0] != '{' {
			run.Violate(Violation{Kind: "oracle", Clause: "stored_only_entities", Input: in, Impl: map[string]any{"key": it.Key, "value": string(it.Value)},
				Detail: "a value that is not an entity object was handed to the cache"}, "")
			return
		}
	}
	if !storable && len(sets) > 0 {
		run.Violate(Violation{Kind: "oracle", Clause: "stored_only_as_the_header_allows", Input: in, Detail: fmt.Sprintf("no subgraph sends a storable header, yet %d entities were handed to the cache", len(sets))}, "")
	}
	if faults > 0 {
		cemu.Lock()
		n := len(cacheErrs)
		cemu.Unlock()
		run.Feat("engine:cache_faults_injected")
		if n > 0 {
			run.Feat("engine:cache_errors_reported")
		}
	}
	run.Feat("engine:history")
	if len(sets) > 0 {
		run.Feat("engine:entities_stored")
	}
	if hits > 0 {
		run.Feat("engine:full_batch_hit")
	}
	if served > 0 {
		run.Feat("engine:request_with_fewer_subgraph_calls")
	}
	if len(h.Unknown) > 0 {
		run.Feat("engine:unknown_entities")
	}
	if h.ErrorsSub != "" {
		run.Feat("engine:subgraph_with_errors")
	}
}
