package main

// C08, failing requests: some fetches fail at the transport level. The requests of one wave (everything
// the fetch tree allows to run at the same time) are held at a spin barrier and let go in the same
// instant, so that their completions really do run concurrently on several cores; the reference run
// lets the same requests complete strictly one after the other. In every run
//   - a request that reads from a failed (or skipped) request is never issued, every other planned
//     request is issued exactly once,
//   - the response (data; errors as a multiset) is the one of the one-at-a-time run.

import (
	"bytes"
	"context"
	"encoding/json"
	"errors"
	"fmt"
	"math/rand"
	"net/http"
	"os"
	"os/exec"
	"runtime"
	"sort"
	"strings"
	"sync"
	"sync/atomic"
	"time"

	"github.com/wundergraph/graphql-go-tools/v2/pkg/engine/datasource/httpclient"
	"github.com/wundergraph/graphql-go-tools/v2/pkg/engine/resolve"
)

type c08FailCase struct {
	Fetches []c08Fetch `json:"fetches"`
	Options c08Opts    `json:"options"`
	Fail    []int      `json:"failing"`
	Stream  string     `json:"stream"`
	Reps    int        `json:"repetitions"`
}

// wide DAGs in layers, so that Parallel groups with several members (and several failing members) are the rule
func c08GenFailCase(r *rand.Rand) c08FailCase {
	layers := 2 + r.Intn(3)
	var fs []c08Fetch
	var prev []int
	next := 0
	for l := 0; l < layers; l++ {
		w := 2 + r.Intn(4)
		var cur []int
		for k := 0; k < w; k++ {
			f := c08Fetch{ID: next, Dup: -1, Ent: -1}
			next++
			if l > 0 {
				f.Deps = append(f.Deps, prev[r.Intn(len(prev))])
				for _, p := range prev {
					if r.Intn(4) == 0 && !containsInt(f.Deps, p) {
						f.Deps = append(f.Deps, p)
					}
				}
			}
			cur = append(cur, f.ID)
			fs = append(fs, f)
		}
		prev = cur
	}
	var fail []int
	for _, f := range fs {
		if r.Intn(3) == 0 {
			fail = append(fail, f.ID)
		}
	}
	if len(fail) < 2 { // at least two roots fail together
		fail = []int{fs[0].ID, fs[1].ID}
	}
	sort.Ints(fail)
	r.Shuffle(len(fs), func(a, b int) { fs[a], fs[b] = fs[b], fs[a] })
	return c08FailCase{Fetches: fs, Options: c08Opts{Scheduler: r.Intn(2) == 0}, Fail: fail, Stream: "failing_requests"}
}

// which requests must not be issued: those that (transitively) read from a failing one
func c08Skipped(fs []c08Fetch, fail []int) map[int]bool {
	bad := map[int]bool{}
	for _, f := range fail {
		bad[f] = true
	}
	skipped := map[int]bool{}
	for changed := true; changed; {
		changed = false
		for _, f := range fs {
			if skipped[f.ID] {
				continue
			}
			for _, d := range f.Deps {
				if bad[d] || skipped[d] {
					skipped[f.ID] = true
					changed = true
					break
				}
			}
		}
	}
	return skipped
}

type c08FailCtrl struct {
	fail     map[int]bool
	mu       sync.Mutex
	issued   map[int]int
	arrived  atomic.Int64
	released atomic.Int64
	finished atomic.Int64
	abort    atomic.Bool
}

func (c *c08FailCtrl) load(id int, input []byte) ([]byte, error) {
	c.mu.Lock()
	c.issued[id]++
	c.mu.Unlock()
	my := c.arrived.Add(1)
	for c.released.Load() < my && !c.abort.Load() {
		runtime.Gosched()
	}
	if c.fail[id] {
		return nil, errors.New("connection refused")
	}
	return []byte(fmt.Sprintf(`{"data":{"f%d":"v%d"}}`, id, id)), nil
}

type c08FailDS struct {
	id   int
	ctrl *c08FailCtrl
}

func (d *c08FailDS) Load(ctx context.Context, headers http.Header, input []byte) ([]byte, error) {
	return d.ctrl.load(d.id, input)
}
func (d *c08FailDS) LoadWithFiles(ctx context.Context, headers http.Header, input []byte, files []*httpclient.FileUpload) ([]byte, error) {
	return d.ctrl.load(d.id, input)
}

func (h *c08FailCtrl) OnLoad(ctx context.Context, ds resolve.DataSourceInfo) context.Context {
	return ctx
}
func (h *c08FailCtrl) OnFinished(ctx context.Context, ds resolve.DataSourceInfo, info *resolve.ResponseInfo) {
	h.finished.Add(1)
}

type c08FailRun struct {
	Response string      `json:"response"`
	Canon    string      `json:"canonical"`
	Issued   map[int]int `json:"issued"`
	Err      string      `json:"err,omitempty"`
}

// errors compared as a multiset, data as it is
func c08CanonResponse(s string) string {
	var v struct {
		Errors []json.RawMessage `json:"errors"`
		Data   json.RawMessage   `json:"data"`
	}
	if json.Unmarshal([]byte(s), &v) != nil {
		return "unparsable:" + s
	}
	es := make([]string, len(v.Errors))
	for i, e := range v.Errors {
		es[i] = string(e)
	}
	sort.Strings(es)
	return fmt.Sprintf("data=%s errors=%v", v.Data, es)
}

// one execution; together = the requests of a wave complete in the same instant, otherwise one at a time
func c08ExecuteFail(c c08FailCase, together bool) (out c08FailRun, tree *c08Tree, viol string) {
	ctrl := &c08FailCtrl{fail: map[int]bool{}, issued: map[int]int{}}
	for _, f := range c.Fail {
		ctrl.fail[f] = true
	}
	p, tree, pan := c08Process(c.Fetches, c.Options, nil)
	if pan != nil || tree == nil {
		return out, tree, fmt.Sprint("postprocess: ", pan)
	}
	var swap func(n *resolve.FetchTreeNode)
	swap = func(n *resolve.FetchTreeNode) {
		if n == nil {
			return
		}
		if n.Item != nil {
			if sf, ok := n.Item.Fetch.(*resolve.SingleFetch); ok {
				sf.DataSource = &c08FailDS{id: sf.FetchID, ctrl: ctrl}
			}
		}
		for _, ch := range n.ChildNodes {
			swap(ch)
		}
	}
	swap(p.Response.Fetches)
	skipped := c08Skipped(c.Fetches, c.Fail)
	ctx, cancel := context.WithCancel(context.Background())
	defer cancel()
	res := resolve.New(ctx, resolve.ResolverOptions{MaxConcurrency: 64, PropagateSubgraphErrors: true})
	rctx := resolve.NewContext(ctx)
	rctx.LoaderHooks = ctrl
	var buf bytes.Buffer
	doneCh := make(chan error, 1)
	go func() {
		defer func() {
			if p := recover(); p != nil {
				doneCh <- fmt.Errorf("panic: %v", p)
			}
		}()
		_, err := res.ResolveGraphQLResponse(rctx, p.Response, nil, &buf)
		doneCh <- err
	}()
	defer ctrl.abort.Store(true)
	deadline := time.Now().Add(20 * time.Second)
	wait := func(cond func() bool) bool {
		for i := 0; !cond(); i++ {
			select {
			case err := <-doneCh:
				doneCh <- err
				return cond()
			default:
			}
			if i%1024 == 1023 && time.Now().After(deadline) {
				return false
			}
			runtime.Gosched()
		}
		return true
	}
	done := map[int]bool{}
	total := int64(0)
	for {
		enabled, fin := c08Enabled(tree, done)
		if fin {
			break
		}
		var wave []int
		for _, e := range enabled {
			if skipped[e] {
				done[e] = true // never issued: the tree moves on at once
			} else {
				wave = append(wave, e)
			}
		}
		if len(wave) == 0 {
			continue
		}
		want := total + int64(len(wave))
		if !wait(func() bool { return ctrl.arrived.Load() >= want }) {
			viol = fmt.Sprintf("the requests %v were expected to be issued together (merged or skipped so far: %v), %d of them arrived", wave, keysOf(done), ctrl.arrived.Load()-total)
			break
		}
		if together {
			ctrl.released.Store(want)
			if !wait(func() bool { return ctrl.finished.Load() >= want }) {
				viol = fmt.Sprintf("the requests %v were released, %d of them were merged", wave, ctrl.finished.Load()-total)
				break
			}
		} else {
			for k := total + 1; k <= want; k++ {
				ctrl.released.Store(k)
				if !wait(func() bool { return ctrl.finished.Load() >= k }) {
					viol = fmt.Sprintf("request number %d was released and never merged", k)
					break
				}
			}
			if viol != "" {
				break
			}
		}
		total = want
		for _, e := range wave {
			done[e] = true
		}
	}
	ctrl.abort.Store(true)
	ctrl.released.Store(1 << 40)
	select {
	case err := <-doneCh:
		if err != nil {
			out.Err = err.Error()
		}
	case <-time.After(20 * time.Second):
		if viol == "" {
			viol = "resolve did not return after every request was merged"
		}
	}
	out.Response = buf.String()
	out.Canon = c08CanonResponse(out.Response)
	ctrl.mu.Lock()
	out.Issued = map[int]int{}
	for k, v := range ctrl.issued {
		out.Issued[k] = v
	}
	ctrl.mu.Unlock()
	if viol == "" {
		for _, f := range c.Fetches {
			n := out.Issued[f.ID]
			if skipped[f.ID] && n != 0 {
				viol = fmt.Sprintf("request %d was issued although a request it reads from (%v) failed or was skipped", f.ID, f.Deps)
				break
			}
			if !skipped[f.ID] && n != 1 {
				viol = fmt.Sprintf("request %d was issued %d times, planned once", f.ID, n)
				break
			}
		}
	}
	return out, tree, viol
}

type c08FailVerdict struct {
	Clause string         `json:"clause,omitempty"`
	Detail string         `json:"detail,omitempty"`
	Impl   map[string]any `json:"impl,omitempty"`
	Runs   int            `json:"runs"`
	Tree   *c08Tree       `json:"tree,omitempty"`
	Issued map[int]int    `json:"issued,omitempty"` // of the one-at-a-time run
}

// the case itself: the one-at-a-time reference run, then the repetitions with simultaneous completions
func c08JudgeFail(c c08FailCase) (v c08FailVerdict) {
	ref, tree, viol := c08ExecuteFail(c, false)
	v.Runs, v.Tree, v.Issued = 1, tree, ref.Issued
	if viol != "" || ref.Err != "" {
		return c08FailVerdict{Clause: "failed_dependency_not_read", Detail: viol + ref.Err, Impl: map[string]any{"tree": tree.String(), "one_at_a_time": ref}, Runs: 1}
	}
	for k := 0; k < c.Reps; k++ {
		got, _, viol := c08ExecuteFail(c, true)
		v.Runs++
		v.Issued = got.Issued
		if viol != "" || got.Err != "" {
			v.Clause, v.Detail = "failed_dependency_not_read", viol+got.Err
			v.Impl = map[string]any{"tree": tree.String(), "repetition": k, "together": got, "one_at_a_time": ref}
			return v
		}
		if got.Canon != ref.Canon {
			v.Clause = "response_independent_of_completion_order"
			v.Impl = map[string]any{"tree": tree.String(), "repetition": k, "together": got, "one_at_a_time": ref}
			return v
		}
	}
	return v
}

func c08FailChild() {
	var c c08FailCase
	if err := json.NewDecoder(os.Stdin).Decode(&c); err != nil {
		fmt.Fprintln(os.Stderr, "bad case:", err)
		os.Exit(2)
	}
	json.NewEncoder(os.Stdout).Encode(c08JudgeFail(c))
}

// c08CheckFail judges the case in a child process: an abort of the Go runtime in the code under test
// ("fatal error: concurrent map writes") is then an outcome of this case, with the case as its replay
func c08CheckFail(run *Run, c c08FailCase) {
	run.Count(jsonStr(map[string]any{"f": c.Fetches, "x": c.Fail, "o": c.Options}), "failing_requests", fmt.Sprintf("failing=%d", min(len(c.Fail), 6)))
	exe, err := os.Executable()
	var v c08FailVerdict
	var stderr bytes.Buffer
	if err == nil {
		cmd := exec.Command(exe, "c08-fail-child")
		cmd.Stdin = bytes.NewReader([]byte(jsonStr(c)))
		cmd.Stderr = &stderr
		var out []byte
		out, err = cmd.Output()
		if err == nil {
			err = json.Unmarshal(out, &v)
		}
	}
	run.mu.Lock()
	run.TracesVsImpl += max(v.Runs, 1)
	run.mu.Unlock()
	if err != nil {
		msg := stderr.String()
		if len(msg) > 1500 {
			msg = msg[:1500]
		}
		run.Violate(Violation{Kind: "oracle", Clause: "resolver_survives_simultaneous_completions", Input: c,
			Impl: map[string]any{"child_process": err.Error(), "stderr": msg}, Detail: "the process executing this plan died: " + firstLine(msg)}, "")
		return
	}
	if v.Clause != "" {
		run.Violate(Violation{Kind: "oracle", Clause: v.Clause, Input: c, Impl: v.Impl, Detail: v.Detail}, "")
		return
	}
	// the Lean model of the bookkeeping (Plan.Skip, Props.C08 failing_requests_order_independent) on the
	// left-to-right linearisation of the produced tree: the same requests are issued
	depsOf := map[int][]int{}
	for _, f := range c.Fetches {
		depsOf[f.ID] = f.Deps
	}
	var order [][2]any
	var walk func(t *c08Tree)
	walk = func(t *c08Tree) {
		if t == nil {
			return
		}
		if t.K == "single" {
			d := depsOf[t.ID]
			if d == nil {
				d = []int{}
			}
			order = append(order, [2]any{t.ID, d})
		}
		for _, ch := range t.C {
			walk(ch)
		}
	}
	walk(v.Tree)
	m, err := run.Pool.Ask("c08.skip", map[string]any{"order": order, "fail": c.Fail})
	if err != nil {
		run.Violate(Violation{Kind: "correspondence", Clause: "driver", Input: c, Detail: err.Error()}, "")
		return
	}
	var mr struct {
		Issued []int `json:"issued"`
	}
	json.Unmarshal(m, &mr)
	sort.Ints(mr.Issued)
	var impl []int
	for id, n := range v.Issued {
		for i := 0; i < n; i++ {
			impl = append(impl, id)
		}
	}
	sort.Ints(impl)
	run.Feat("failing_requests_vs_model")
	if fmt.Sprint(impl) != fmt.Sprint(mr.Issued) {
		run.Violate(Violation{Kind: "correspondence", Clause: "c08.skip: the requests issued are not the ones the model of the errored-fetch bookkeeping issues", Input: c,
			Impl: map[string]any{"tree": v.Tree.String(), "issued": impl}, Model: decodeRaw(m)}, "")
	}
}

func firstLine(s string) string {
	if i := strings.IndexByte(s, '\n'); i >= 0 {
		return s[:i]
	}
	return s
}
