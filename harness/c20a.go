package main

// C20, arguments: the protobuf request is compiled from the variables of the normalized operation.  For root fields (queries and
// mutations) whose arguments are input objects, lists and enums, a type-directed generator writes the same argument values twice:
// as literals in the operation and as variables — both formulations must get the same answer from the datasource (the service is
// the same deterministic mock, so a difference means the two requests it received differ).

import (
	"context"
	"encoding/json"
	"fmt"
	"math/rand"
	"strings"

	"github.com/wundergraph/graphql-go-tools/v2/pkg/ast"
	"github.com/wundergraph/graphql-go-tools/v2/pkg/astparser"
	grpcdatasource "github.com/wundergraph/graphql-go-tools/v2/pkg/engine/datasource/grpc_datasource"
)

type c20InField struct {
	name string
	typ  int // type ref in the definition
}

type c20Inputs struct {
	def    *ast.Document
	inputs map[string][]c20InField
	enums  map[string][]string
}

func c20CollectInputs(def *ast.Document) *c20Inputs {
	in := &c20Inputs{def: def, inputs: map[string][]c20InField{}, enums: map[string][]string{}}
	for i := range def.InputObjectTypeDefinitions {
		name := def.InputObjectTypeDefinitionNameString(i)
		for _, fr := range def.InputObjectTypeDefinitions[i].InputFieldsDefinition.Refs {
			in.inputs[name] = append(in.inputs[name], c20InField{def.InputValueDefinitionNameString(fr), def.InputValueDefinitionType(fr)})
		}
	}
	for i := range def.EnumTypeDefinitions {
		name := def.EnumTypeDefinitionNameString(i)
		for _, vr := range def.EnumTypeDefinitions[i].EnumValuesDefinition.Refs {
			in.enums[name] = append(in.enums[name], def.EnumValueDefinitionNameString(vr))
		}
	}
	return in
}

func (in *c20Inputs) typeText(ref int) string {
	b, _ := in.def.PrintTypeBytes(ref, nil)
	return string(b)
}

// a value of the type: GraphQL literal text and the JSON of the same value; absent = the (optional) value is left out
func (in *c20Inputs) gen(r *rand.Rand, ref int, depth int) (lit string, js any, absent bool) {
	t := in.def.Types[ref]
	switch t.TypeKind {
	case ast.TypeKindNonNull:
		l, j, _ := in.genPresent(r, t.OfType, depth)
		return l, j, false
	default:
		switch r.Intn(6) {
		case 0:
			return "", nil, true
		case 1:
			return "null", nil, false
		}
		l, j, _ := in.genPresent(r, ref, depth)
		return l, j, false
	}
}

func (in *c20Inputs) genPresent(r *rand.Rand, ref int, depth int) (string, any, bool) {
	t := in.def.Types[ref]
	switch t.TypeKind {
	case ast.TypeKindNonNull:
		return in.genPresent(r, t.OfType, depth)
	case ast.TypeKindList:
		n := r.Intn(3)
		if depth > 3 {
			n = 0
		}
		var lits []string
		items := []any{}
		for i := 0; i < n; i++ {
			inner := in.def.Types[t.OfType]
			var l string
			var j any
			if inner.TypeKind == ast.TypeKindNonNull || r.Intn(5) > 0 {
				l, j, _ = in.genPresent(r, t.OfType, depth+1)
			} else {
				l, j = "null", nil
			}
			lits = append(lits, l)
			items = append(items, j)
		}
		return "[" + strings.Join(lits, ", ") + "]", items, false
	}
	name := in.def.TypeNameString(ref)
	switch name {
	case "Int":
		n := r.Intn(200) - 50
		return fmt.Sprint(n), json.Number(fmt.Sprint(n)), false
	case "Float":
		v := []string{"1.5", "0.25", "10", "-3.75", "100.125"}[r.Intn(5)]
		return v, json.Number(v), false
	case "Boolean":
		b := r.Intn(2) == 0
		return fmt.Sprint(b), b, false
	case "String", "ID":
		s := pick(r, []string{"a", "hello world", "x-1", "", "Zoë", "tab\\there"})
		jsv := strings.ReplaceAll(s, "\\t", "\t")
		return `"` + s + `"`, jsv, false
	}
	if vals, ok := in.enums[name]; ok && len(vals) > 0 {
		v := vals[r.Intn(len(vals))]
		return v, v, false
	}
	if fields, ok := in.inputs[name]; ok {
		if depth > 4 {
			// recursive input types end here when every remaining field is optional; required ones are still written
		}
		var parts []string
		obj := map[string]any{}
		for _, f := range fields {
			ft := in.def.Types[f.typ]
			if depth > 4 && ft.TypeKind != ast.TypeKindNonNull {
				continue
			}
			l, j, absent := in.gen(r, f.typ, depth+1)
			if absent {
				continue
			}
			parts = append(parts, f.name+": "+l)
			obj[f.name] = j
		}
		return "{" + strings.Join(parts, ", ") + "}", obj, false
	}
	return `"?"`, "?", false
}

func (e *c20Env) loadVars(written string, vars []byte) (data any, raw string, err error) {
	defer func() {
		if r := recover(); r != nil {
			err = fmt.Errorf("panic: %v", r)
		}
	}()
	norm := c03Normalize(e.def, written, vars, false)
	if norm.Err != "" {
		return nil, "", fmt.Errorf("normalization: %s", norm.Err)
	}
	doc, rep := astparser.ParseGraphqlDocumentString(norm.Printed)
	if rep.HasErrors() {
		return nil, "", fmt.Errorf("parse: %s", rep.Error())
	}
	ds, err := grpcdatasource.NewDataSource(grpcdatasource.NewGRPCTransport(e.conn), grpcdatasource.DataSourceConfig{
		Operation: &doc, Definition: e.def, SubgraphName: "Products", Compiler: e.compiler, Mapping: e.mapping})
	if err != nil {
		return nil, "", fmt.Errorf("plan: %w", err)
	}
	in, _ := json.Marshal(map[string]any{"query": norm.Printed, "body": map[string]any{"variables": json.RawMessage(norm.Vars)}})
	out, err := ds.Load(context.Background(), nil, in)
	if err != nil {
		return nil, string(out), fmt.Errorf("load: %w", err)
	}
	var parsed struct {
		Data   any   `json:"data"`
		Errors []any `json:"errors"`
	}
	dec := json.NewDecoder(strings.NewReader(string(out)))
	dec.UseNumber()
	if err := dec.Decode(&parsed); err != nil {
		return nil, string(out), fmt.Errorf("response is not JSON: %w", err)
	}
	if len(parsed.Errors) > 0 {
		return parsed.Data, string(out), fmt.Errorf("errors: %s", truncate(jsonStr(parsed.Errors), 300))
	}
	return parsed.Data, string(out), nil
}

// root fields with structured arguments (the random ones are left out)
var c20ArgRoots = []struct{ op, field string }{
	{"query", "typeWithMultipleFilterFields"}, {"query", "complexFilterType"}, {"query", "calculateTotals"}, {"query", "filterCategories"},
	{"query", "search"}, {"query", "nullableFieldsTypeWithFilter"}, {"query", "blogPostsWithFilter"}, {"query", "authorsWithFilter"},
	{"query", "bulkSearchAuthors"}, {"query", "bulkSearchBlogPosts"}, {"query", "categoriesByKinds"}, {"query", "typeFilterWithArguments"},
	{"mutation", "createUser"}, {"mutation", "performAction"}, {"mutation", "createNullableFieldsType"}, {"mutation", "updateNullableFieldsType"},
	{"mutation", "createBlogPost"},
}

var c20In *c20Inputs

func c20ArgumentsCheck(run *Run, e *c20Env, r *rand.Rand, tag map[string]any) {
	if c20In == nil {
		c20In = c20CollectInputs(e.def)
	}
	in := c20In
	root := c20ArgRoots[r.Intn(len(c20ArgRoots))]
	rootName := "Query"
	if root.op == "mutation" {
		rootName = "Mutation"
	}
	node, ok := e.def.NodeByNameStr(rootName)
	if !ok {
		return
	}
	fdRef, ok := e.def.NodeFieldDefinitionByName(node, []byte(root.field))
	if !ok {
		run.Feat("arguments:root_missing")
		return
	}
	var lits, decls, uses []string
	vars := map[string]any{}
	for i, ar := range e.def.FieldDefinitions[fdRef].ArgumentsDefinition.Refs {
		name := e.def.InputValueDefinitionNameString(ar)
		tref := e.def.InputValueDefinitionType(ar)
		l, j, absent := in.gen(r, tref, 0)
		if absent {
			continue
		}
		v := fmt.Sprintf("a%d", i)
		lits = append(lits, name+": "+l)
		decls = append(decls, "$"+v+": "+in.typeText(tref))
		uses = append(uses, name+": $"+v)
		vars[v] = j
	}
	// the selection: the scalar fields of the result type, or __typename for abstract results
	ret := e.schema.typ(e.def.ResolveTypeNameString(e.def.FieldDefinitionType(fdRef)))
	sel := "{ __typename }"
	if ret != nil && ret.Kind == "OBJECT" {
		fs := e.scalarFields(ret)
		if root.op == "mutation" {
			// the mock gives created objects random ids
			var keep []string
			for _, f := range fs {
				if f != "id" {
					keep = append(keep, f)
				}
			}
			fs = keep
		}
		if len(fs) > 0 {
			sel = "{ __typename " + strings.Join(fs, " ") + " }"
		}
	}
	paren := func(xs []string) string {
		if len(xs) == 0 {
			return ""
		}
		return "(" + strings.Join(xs, ", ") + ")"
	}
	literalOp := fmt.Sprintf("%s Q { %s%s %s }", root.op, root.field, paren(lits), sel)
	variableOp := fmt.Sprintf("%s Q%s { %s%s %s }", root.op, paren(decls), root.field, paren(uses), sel)
	vb, _ := json.Marshal(vars)
	inp := map[string]any{"arguments": true, "literal": literalOp, "variable": variableOp, "variables": json.RawMessage(vb)}
	d1, raw1, err1 := e.loadVars(literalOp, []byte("{}"))
	d2, raw2, err2 := e.loadVars(variableOp, vb)
	if (err1 != nil) != (err2 != nil) {
		run.Violate(Violation{Kind: "oracle", Clause: "literal_and_variable_arguments_agree", Input: c20Tag(inp, tag), Impl: map[string]any{"literal": raw1, "variable": raw2},
			Detail: fmt.Sprintf("the same argument values as literals: err=%v answer=%s; as variables: err=%v answer=%s", err1, truncate(raw1, 500), err2, truncate(raw2, 500))}, "")
		return
	}
	if err1 != nil {
		if strings.HasPrefix(err1.Error(), "panic") || strings.HasPrefix(err2.Error(), "panic") {
			run.Violate(Violation{Kind: "oracle", Clause: "arguments_no_panic", Input: c20Tag(inp, tag), Detail: fmt.Sprintf("literal: %v; variable: %v", err1, err2)}, "")
			return
		}
		run.Feat("arguments:both_fail")
		run.Feat("arguments:fail:" + truncate(err1.Error(), 60))
		return
	}
	if !fedJSONEqual(d1, d2) {
		run.Violate(Violation{Kind: "oracle", Clause: "literal_and_variable_arguments_agree", Input: c20Tag(inp, tag), Impl: map[string]any{"literal": raw1, "variable": raw2},
			Detail: fmt.Sprintf("the same argument values as literals answer %s, as variables %s", truncate(raw1, 700), truncate(raw2, 700))}, "")
		return
	}
	run.Feat("arguments:" + root.op)
	run.mu.Lock()
	run.TracesVsImpl++
	run.mu.Unlock()
}
